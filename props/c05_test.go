package props

// C05 — the bytes validators sign bind every value handed to the bridge contract; message ids are unique and
// strictly increasing across all queues.
// R1 (metamorphic): calldata(m1) != calldata(m2) (signature block excluded; calldata built by the harness's own
//     encoder from the compass ABI)  =>  bytesToSign(m1) != bytesToSign(m2); cross-checked with the
//     implementation's VerifyAgainstTX (tx of m1 must not verify m2).
// R2: where the scheme carries the deployment id, changing it changes the bytes.
// R3 (E-chain): ids returned by PutMessageInQueue across several queues of two chains.

import (
	"bytes"
	"context"
	"encoding/binary"
	"fmt"
	"math/big"
	"sort"
	"strings"
	"testing"

	"cosmossdk.io/log"
	sdkmath "cosmossdk.io/math"
	cmtproto "github.com/cometbft/cometbft/proto/tendermint/types"
	sdk "github.com/cosmos/cosmos-sdk/types"
	"github.com/ethereum/go-ethereum/common"
	ethtypes "github.com/ethereum/go-ethereum/core/types"
	"pgregory.net/rapid"

	"github.com/palomachain/paloma/v2/x/consensus/keeper/consensus"
	consensustypes "github.com/palomachain/paloma/v2/x/consensus/types"
	evmtypes "github.com/palomachain/paloma/v2/x/evm/types"
	skywaytypes "github.com/palomachain/paloma/v2/x/skyway/types"

	"verif/harness/cabi"
	"verif/harness/chain"
	"verif/harness/evid"
)

type c05Call struct {
	addr    common.Address
	payload []byte
}

// c05Spec holds every raw value of an item that is handed to the bridge contract (plus the deployment id).
type c05Spec struct {
	kind      string // logic | valset | deploy | handover | batch
	turnstone string
	relayer   common.Address
	id        uint64
	gas       uint64
	contract  common.Address
	payload   []byte
	fees      [3]uint64
	sender    []byte
	deadline  int64
	vals      []common.Address
	powers    []uint64
	valsetID  uint64
	bytecode  []byte
	deployer  common.Address
	calls     []c05Call
	token     common.Address
	receivers []common.Address
	amounts   []uint64
	timeout   uint64
}

func c05Addr(t *rapid.T, label string) common.Address {
	return common.BytesToAddress(rapid.SliceOfN(rapid.Byte(), 20, 20).Draw(t, label))
}

func c05Bytes(t *rapid.T, label string, max int) []byte {
	return rapid.SliceOfN(rapid.Byte(), 0, max).Draw(t, label)
}

func c05Turnstone(t *rapid.T, label string) string {
	// the contract type is bytes32: ids up to 32 bytes, no trailing NULs (they would denote the same value)
	s := rapid.StringMatching(`[a-z0-9-]{1,32}`).Draw(t, label)
	return s
}

func c05GenSpec(t *rapid.T) c05Spec {
	s := c05Spec{kind: rapid.SampledFrom([]string{"logic", "valset", "deploy", "handover", "batch"}).Draw(t, "kind")}
	s.turnstone = c05Turnstone(t, "turnstone")
	s.relayer = c05Addr(t, "relayer")
	s.id = rapid.Uint64Range(1, 1<<62).Draw(t, "id")
	s.gas = rapid.OneOf(rapid.Just(uint64(0)), rapid.Uint64Range(1, 1<<40), rapid.Uint64Range(1, 1<<63)).Draw(t, "gas")
	s.contract = c05Addr(t, "contract")
	s.payload = c05Bytes(t, "payload", 70)
	for i := range s.fees {
		s.fees[i] = rapid.OneOf(rapid.Uint64Range(0, 10), rapid.Uint64()).Draw(t, "fee")
	}
	s.sender = rapid.SliceOfN(rapid.Byte(), 20, 20).Draw(t, "sender")
	if rapid.Bool().Draw(t, "sender32") {
		s.sender = rapid.SliceOfN(rapid.Byte(), 32, 32).Draw(t, "sender32bytes")
	}
	s.deadline = rapid.Int64Range(0, 1<<40).Draw(t, "deadline")
	n := rapid.IntRange(1, 4).Draw(t, "nvals")
	for i := 0; i < n; i++ {
		s.vals = append(s.vals, c05Addr(t, "val"))
		s.powers = append(s.powers, rapid.Uint64Range(1, 1<<32).Draw(t, "power"))
	}
	s.valsetID = rapid.Uint64Range(1, 1<<40).Draw(t, "valsetID")
	s.bytecode = c05Bytes(t, "bytecode", 70)
	s.deployer = c05Addr(t, "deployer")
	nc := rapid.IntRange(1, 3).Draw(t, "ncalls")
	for i := 0; i < nc; i++ {
		s.calls = append(s.calls, c05Call{c05Addr(t, "callAddr"), c05Bytes(t, "callPayload", 40)})
	}
	s.token = c05Addr(t, "token")
	nt := rapid.IntRange(1, 4).Draw(t, "ntx")
	for i := 0; i < nt; i++ {
		s.receivers = append(s.receivers, c05Addr(t, "recv"))
		s.amounts = append(s.amounts, rapid.Uint64Range(1, 1<<62).Draw(t, "amount"))
	}
	s.timeout = rapid.Uint64Range(1, 1<<40).Draw(t, "timeout")
	return s
}

func (s c05Spec) clone() c05Spec {
	c := s
	c.payload = append([]byte(nil), s.payload...)
	c.sender = append([]byte(nil), s.sender...)
	c.vals = append([]common.Address(nil), s.vals...)
	c.powers = append([]uint64(nil), s.powers...)
	c.bytecode = append([]byte(nil), s.bytecode...)
	c.calls = append([]c05Call(nil), s.calls...)
	c.receivers = append([]common.Address(nil), s.receivers...)
	c.amounts = append([]uint64(nil), s.amounts...)
	return c
}

// mutation operators per kind: name -> mutate
func c05Mutations(kind string) []string {
	common := []string{"relayer", "turnstone"}
	switch kind {
	case "logic":
		return append(common, "contract", "payload", "fee0", "fee1", "fee2", "sender", "senderHead", "senderTruncate", "id", "deadline")
	case "valset":
		return append(common, "valAddr", "valPower", "valsetID", "valAdd", "valDrop", "valSwap", "valPairSwap", "valRotate", "gas")
	case "deploy":
		return append(common, "deployer", "bytecode", "fee0", "fee1", "fee2", "sender", "senderHead", "senderTruncate", "id", "deadline")
	case "handover":
		return append(common, "callAddr", "callPayload", "callAdd", "callDrop", "deadline", "gas")
	default:
		return append(common, "token", "recv", "amount", "txAdd", "txDrop", "txSwap", "batchNonce", "timeout", "gas")
	}
}

func c05Mutate(t *rapid.T, s *c05Spec, op string) {
	switch op {
	case "relayer":
		s.relayer = c05Addr(t, "m.relayer")
	case "turnstone":
		s.turnstone = c05Turnstone(t, "m.turnstone")
	case "contract":
		s.contract = c05Addr(t, "m.contract")
	case "payload":
		s.payload = c05Bytes(t, "m.payload", 70)
	case "fee0", "fee1", "fee2":
		s.fees[int(op[3]-'0')] = rapid.Uint64().Draw(t, "m.fee")
	case "sender":
		s.sender = rapid.SliceOfN(rapid.Byte(), 20, 20).Draw(t, "m.sender")
	case "senderHead":
		// a fee payer longer than 20 bytes (contract / derived account): change only its leading bytes
		if len(s.sender) < 32 {
			s.sender = append(make([]byte, 32-len(s.sender)), s.sender...)
			s.sender[0] = 1
		}
		s.sender[rapid.IntRange(0, 11).Draw(t, "m.senderHeadIdx")] ^= byte(rapid.IntRange(1, 255).Draw(t, "m.senderHeadXor"))
	case "senderTruncate":
		// the 20-byte account equal to the tail of a 32-byte fee payer
		if len(s.sender) == 32 {
			s.sender = append([]byte(nil), s.sender[12:]...)
		} else {
			s.sender = append(rapid.SliceOfN(rapid.Byte(), 12, 12).Draw(t, "m.senderPrefix"), s.sender...)
		}
	case "id", "batchNonce":
		s.id = rapid.Uint64Range(1, 1<<62).Draw(t, "m.id")
	case "deadline":
		s.deadline = rapid.Int64Range(0, 1<<40).Draw(t, "m.deadline")
	case "gas":
		s.gas = rapid.OneOf(rapid.Just(uint64(0)), rapid.Just(uint64(300000)), rapid.Uint64Range(1, 1<<63)).Draw(t, "m.gas")
	case "valAddr":
		s.vals[rapid.IntRange(0, len(s.vals)-1).Draw(t, "i")] = c05Addr(t, "m.val")
	case "valPower":
		s.powers[rapid.IntRange(0, len(s.powers)-1).Draw(t, "i")] = rapid.Uint64Range(1, 1<<32).Draw(t, "m.power")
	case "valsetID":
		s.valsetID = rapid.Uint64Range(1, 1<<40).Draw(t, "m.valsetID")
	case "valAdd":
		s.vals = append(s.vals, c05Addr(t, "m.val"))
		s.powers = append(s.powers, rapid.Uint64Range(1, 1<<32).Draw(t, "m.power"))
	case "valDrop":
		if len(s.vals) > 1 {
			s.vals, s.powers = s.vals[:len(s.vals)-1], s.powers[:len(s.powers)-1]
		}
	case "valSwap":
		if len(s.vals) > 1 {
			s.vals[0], s.vals[1] = s.vals[1], s.vals[0]
		}
	case "valPairSwap":
		// two members change places, each keeping its power: the same set, delivered in another order
		if len(s.vals) > 1 {
			i := rapid.IntRange(0, len(s.vals)-1).Draw(t, "i")
			j := rapid.IntRange(0, len(s.vals)-2).Draw(t, "j")
			if j >= i {
				j++
			}
			s.vals[i], s.vals[j] = s.vals[j], s.vals[i]
			s.powers[i], s.powers[j] = s.powers[j], s.powers[i]
		}
	case "valRotate":
		if len(s.vals) > 1 {
			s.vals = append(s.vals[1:], s.vals[0])
			s.powers = append(s.powers[1:], s.powers[0])
		}
	case "bytecode":
		s.bytecode = c05Bytes(t, "m.bytecode", 70)
	case "deployer":
		s.deployer = c05Addr(t, "m.deployer")
	case "callAddr":
		s.calls[rapid.IntRange(0, len(s.calls)-1).Draw(t, "i")].addr = c05Addr(t, "m.callAddr")
	case "callPayload":
		s.calls[rapid.IntRange(0, len(s.calls)-1).Draw(t, "i")].payload = c05Bytes(t, "m.callPayload", 40)
	case "callAdd":
		s.calls = append(s.calls, c05Call{c05Addr(t, "m.callAddr"), c05Bytes(t, "m.callPayload", 40)})
	case "callDrop":
		if len(s.calls) > 1 {
			s.calls = s.calls[:len(s.calls)-1]
		}
	case "token":
		s.token = c05Addr(t, "m.token")
	case "recv":
		s.receivers[rapid.IntRange(0, len(s.receivers)-1).Draw(t, "i")] = c05Addr(t, "m.recv")
	case "amount":
		s.amounts[rapid.IntRange(0, len(s.amounts)-1).Draw(t, "i")] = rapid.Uint64Range(1, 1<<62).Draw(t, "m.amount")
	case "txAdd":
		s.receivers = append(s.receivers, c05Addr(t, "m.recv"))
		s.amounts = append(s.amounts, rapid.Uint64Range(1, 1<<62).Draw(t, "m.amount"))
	case "txDrop":
		if len(s.receivers) > 1 {
			s.receivers, s.amounts = s.receivers[:len(s.receivers)-1], s.amounts[:len(s.amounts)-1]
		}
	case "txSwap":
		if len(s.receivers) > 1 {
			s.receivers[0], s.receivers[1] = s.receivers[1], s.receivers[0]
			s.amounts[0], s.amounts[1] = s.amounts[1], s.amounts[0]
		}
	case "timeout":
		s.timeout = rapid.Uint64Range(1, 1<<40).Draw(t, "m.timeout")
	default:
		panic(op)
	}
}

func c05GasOrDefault(g uint64) *big.Int {
	if g == 0 {
		return cabi.U(300000)
	}
	return cabi.U(g)
}

// delivered: the call data handed to the bridge contract, with a constant signature block.
func (s c05Spec) delivered(cons cabi.Consensus) []byte {
	fees := cabi.FeeArgs{RelayerFee: cabi.U(s.fees[0]), CommunityFee: cabi.U(s.fees[1]), SecurityFee: cabi.U(s.fees[2]), FeePayerPalomaAddress: cabi.LeftPad32(s.sender)}
	var out []byte
	var err error
	switch s.kind {
	case "logic":
		out, err = cabi.SubmitLogicCall(cons, s.contract, s.payload, fees, cabi.U(s.id), cabi.I(s.deadline), s.relayer)
	case "valset":
		vs := cabi.Valset{Validators: s.vals, ValsetId: cabi.U(s.valsetID)}
		for _, p := range s.powers {
			vs.Powers = append(vs.Powers, cabi.U(p))
		}
		out, err = cabi.UpdateValset(cons, vs, s.relayer, c05GasOrDefault(s.gas))
	case "deploy":
		out, err = cabi.DeployContract(cons, s.deployer, s.bytecode, fees, cabi.U(s.id), cabi.I(s.deadline), s.relayer)
	case "handover":
		var calls []cabi.LogicCallArgs
		for _, c := range s.calls {
			calls = append(calls, cabi.LogicCallArgs{LogicContractAddress: c.addr, Payload: c.payload})
		}
		out, err = cabi.CompassUpdateBatch(cons, calls, cabi.I(s.deadline), c05GasOrDefault(s.gas), s.relayer)
	case "batch":
		args := cabi.BatchArgs{Receiver: s.receivers}
		for _, a := range s.amounts {
			args.Amount = append(args.Amount, cabi.U(a))
		}
		out, err = cabi.SubmitBatch(cons, s.token, args, cabi.U(s.id), cabi.U(s.timeout), s.relayer, c05GasOrDefault(s.gas))
	}
	if err != nil {
		panic(err)
	}
	return out
}

// message builds the Paloma-side item and returns its signing bytes.
func (s c05Spec) evmMessage() *evmtypes.Message {
	m := &evmtypes.Message{TurnstoneID: s.turnstone, ChainReferenceID: "eth-main", AssigneeRemoteAddress: s.relayer.Hex(), Assignee: "palomavaloper1xyz"}
	fees := &evmtypes.Fees{RelayerFee: s.fees[0], CommunityFee: s.fees[1], SecurityFee: s.fees[2]}
	switch s.kind {
	case "logic":
		m.Action = &evmtypes.Message_SubmitLogicCall{SubmitLogicCall: &evmtypes.SubmitLogicCall{HexContractAddress: s.contract.Hex(), Payload: s.payload, Deadline: s.deadline, SenderAddress: s.sender, Fees: fees}}
	case "valset":
		vs := &evmtypes.Valset{ValsetID: s.valsetID, Powers: s.powers}
		for _, v := range s.vals {
			vs.Validators = append(vs.Validators, v.Hex())
		}
		m.Action = &evmtypes.Message_UpdateValset{UpdateValset: &evmtypes.UpdateValset{Valset: vs}}
	case "deploy":
		m.Action = &evmtypes.Message_UploadUserSmartContract{UploadUserSmartContract: &evmtypes.UploadUserSmartContract{Bytecode: s.bytecode, DeployerAddress: s.deployer.Hex(), Deadline: s.deadline, SenderAddress: s.sender, Fees: fees, Id: 1}}
	case "handover":
		h := &evmtypes.CompassHandover{Deadline: s.deadline, Id: 1}
		for _, c := range s.calls {
			h.ForwardCallArgs = append(h.ForwardCallArgs, evmtypes.CompassHandover_ForwardCallArgs{HexContractAddress: c.addr.Hex(), Payload: c.payload})
		}
		m.Action = &evmtypes.Message_CompassHandover{CompassHandover: h}
	}
	return m
}

func (s c05Spec) signingBytes() []byte {
	if s.kind == "batch" {
		b := skywaytypes.InternalOutgoingTxBatch{BatchNonce: s.id, BatchTimeout: s.timeout, ChainReferenceID: "eth-main", GasEstimate: s.gas, AssigneeRemoteAddress: s.relayer}
		tc, err := skywaytypes.NewEthAddress(s.token.Hex())
		if err != nil {
			panic(err)
		}
		b.TokenContract = *tc
		for i := range s.receivers {
			d, _ := skywaytypes.NewEthAddress(s.receivers[i].Hex())
			tok, _ := skywaytypes.NewInternalERC20Token(sdkmath.NewIntFromUint64(s.amounts[i]), s.token.Hex(), "eth-main")
			b.Transactions = append(b.Transactions, &skywaytypes.InternalOutgoingTransferTx{Id: uint64(i + 1), DestAddress: d, Erc20Token: tok, BridgeTaxAmount: sdkmath.ZeroInt()})
		}
		bz, err := b.GetCheckpoint(s.turnstone)
		if err != nil {
			panic(err)
		}
		return bz
	}
	q := &consensustypes.QueuedSignedMessage{Id: s.id, GasEstimate: s.gas}
	bz, err := s.evmMessage().Keccak256WithSignedMessage(q)
	if err != nil {
		panic(err)
	}
	return bz
}

// schemes that carry the deployment id
var c05CarriesTurnstone = map[string]bool{"logic": true, "valset": true, "deploy": true, "batch": true}

func c05Bytes32(s string) [32]byte {
	var b [32]byte
	copy(b[:], s)
	return b
}

func TestC05_SigningBytesBindDeliveredValues(t *testing.T) {
	evid.Check(t, 20000, 200000, func(t *rapid.T) {
		s1 := c05GenSpec(t)
		s2 := s1.clone()
		muts := c05Mutations(s1.kind)
		k := 1
		if rapid.IntRange(0, 9).Draw(t, "multi?") >= 7 {
			k = rapid.IntRange(2, 3).Draw(t, "k")
		}
		var ops []string
		for i := 0; i < k; i++ {
			op := rapid.SampledFrom(muts).Draw(t, "op")
			c05Mutate(t, &s2, op)
			ops = append(ops, op)
		}
		cons := cabi.EmptyConsensus()
		d1, d2 := s1.delivered(cons), s2.delivered(cons)
		b1, b2 := s1.signingBytes(), s2.signingBytes()
		deliveredDiffer := !bytes.Equal(d1, d2)
		if deliveredDiffer && bytes.Equal(b1, b2) {
			t.Fatalf("%s: after changing %v the bridge contract would be handed different call data, but the bytes validators sign are identical (%x):\n m1=%+v\n m2=%+v", s1.kind, ops, b1, s1, s2)
		}
		if c05CarriesTurnstone[s1.kind] && c05Bytes32(s1.turnstone) != c05Bytes32(s2.turnstone) && bytes.Equal(b1, b2) {
			t.Fatalf("%s: changing the deployment id %q -> %q leaves the signing bytes unchanged", s1.kind, s1.turnstone, s2.turnstone)
		}
		labels := []string{s1.kind + ":" + strings.Join(ops, "+")}
		if !deliveredDiffer {
			labels = append(labels, "sameDelivered")
		}
		evid.Case(t.Name(), fmt.Sprintf("%+v | %+v", s1, s2), k == 1 && (deliveredDiffer || ops[0] == "turnstone"), labels, func() any {
			return map[string]any{"kind": s1.kind, "changed": ops, "deliveredDiffer": deliveredDiffer, "signingBytes1": fmt.Sprintf("%x", b1), "signingBytes2": fmt.Sprintf("%x", b2)}
		})
	})
}

// the implementation's own acceptance agrees: the transaction that delivers m1 does not prove delivery of m2
func TestC05_VerifyAgainstTxRejectsOtherMessage(t *testing.T) {
	ctx := sdk.NewContext(nil, cmtproto.Header{}, false, log.NewNopLogger())
	compass := &evmtypes.SmartContract{Id: 1, AbiJSON: chain.CompassABI}
	evid.Check(t, 5000, 50000, func(t *rapid.T) {
		s1 := c05GenSpec(t)
		if s1.kind == "batch" {
			s1.kind = "logic"
		}
		s2 := s1.clone()
		op := rapid.SampledFrom(c05Mutations(s1.kind)).Draw(t, "op")
		c05Mutate(t, &s2, op)
		// the signing valset and two signatures (content irrelevant for the comparison, but part of the call data)
		sigValset := &evmtypes.Valset{ValsetID: 7, Validators: []string{"0x00000000000000000000000000000000000000A1", "0x00000000000000000000000000000000000000A2"}, Powers: []uint64{1 << 31, 1 << 31}}
		sig := make([]byte, 65)
		sig[0], sig[33] = 1, 2
		sd := []*consensustypes.SignData{{ExternalAccountAddress: sigValset.Validators[0], Signature: sig}, {ExternalAccountAddress: sigValset.Validators[1], Signature: sig}}
		cons := cabi.Consensus{Valset: cabi.Valset{ValsetId: cabi.U(7), Validators: []common.Address{common.HexToAddress(sigValset.Validators[0]), common.HexToAddress(sigValset.Validators[1])}, Powers: []*big.Int{cabi.U(1 << 31), cabi.U(1 << 31)}}}
		for range sd {
			cons.Signatures = append(cons.Signatures, cabi.Sig{V: cabi.U(27), R: new(big.Int).SetBytes(sig[:32]), S: new(big.Int).SetBytes(sig[32:64])})
		}
		if s1.gas == 0 {
			s1.gas = 300000 // VerifyAgainstTX compares the stored estimate literally; 0 is only a signing-time sentinel
		}
		if s2.gas == 0 {
			s2.gas = 300000
		}
		tx := ethtypes.NewTx(&ethtypes.LegacyTx{Nonce: 1, To: &common.Address{0xc1}, Gas: 1, GasPrice: big.NewInt(1), Data: s1.delivered(cons)})
		verify := func(s c05Spec) error {
			q := &consensustypes.QueuedSignedMessage{Id: s.id, GasEstimate: s.gas, SignData: sd}
			switch a := s.evmMessage().Action.(type) {
			case *evmtypes.Message_SubmitLogicCall:
				return a.SubmitLogicCall.VerifyAgainstTX(ctx, tx, q, sigValset, compass, s.relayer.Hex())
			case *evmtypes.Message_UpdateValset:
				return a.UpdateValset.VerifyAgainstTX(ctx, tx, q, sigValset, compass, s.relayer.Hex())
			case *evmtypes.Message_UploadUserSmartContract:
				return a.UploadUserSmartContract.VerifyAgainstTX(ctx, tx, q, sigValset, compass, s.relayer.Hex())
			case *evmtypes.Message_CompassHandover:
				return a.CompassHandover.VerifyAgainstTX(ctx, tx, q, sigValset, compass, s.relayer.Hex())
			}
			return fmt.Errorf("unknown action")
		}
		if err := verify(s1); err != nil {
			t.Fatalf("%s: the harness-encoded call data of a message is not accepted as proof of that very message: %v\n m=%+v", s1.kind, err, s1)
		}
		differ := !bytes.Equal(s1.delivered(cons), s2.delivered(cons))
		if differ {
			if err := verify(s2); err == nil {
				t.Fatalf("%s: transaction delivering m1 accepted as proof of m2 which differs in %s\n m1=%+v\n m2=%+v", s1.kind, op, s1, s2)
			}
		}
		evid.Case(t.Name(), fmt.Sprintf("%+v | %s | %+v", s1, op, s2), differ, []string{s1.kind + ":" + op}, func() any {
			return map[string]any{"kind": s1.kind, "changed": op, "calldata": fmt.Sprintf("%x", tx.Data())}
		})
	})
	_ = context.Background
}

// ---------------------------------------------------------------------------------------------------
// R3: ids unique and increasing across queues

func TestC05_MessageIDsUniqueAndIncreasing(t *testing.T) {
	evid.Check(t, 40, 200, func(t *rapid.T) {
		salt := fmt.Sprintf("c05-%d", rapid.IntRange(0, 1<<20).Draw(t, "salt"))
		c, err := chain.New(chain.Options{Salt: salt, Stakes: []int64{100_000_000, 100_000_000, 100_000_000}, Users: []string{"u"},
			EvmChains: []chain.EvmChain{{RefID: "eth-main", ChainID: 1}, {RefID: "bnb-main", ChainID: 56}}})
		if err != nil {
			t.Fatalf("boot: %v", err)
		}
		defer c.Close()
		if err := c.Ready(); err != nil {
			t.Fatalf("ready: %v", err)
		}
		ctx := c.Ctx()
		queues := []string{chain.TurnstoneQueue("bnb-main"), chain.TurnstoneQueue("eth-main")}
		sort.Strings(queues)
		// ids already issued during setup
		var last uint64
		live := map[string][]uint64{}
		for _, q := range queues {
			ms, _ := c.App.ConsensusKeeper.GetMessagesFromQueue(ctx, q, 0)
			for _, m := range ms {
				live[q] = append(live[q], m.GetId())
				if m.GetId() > last {
					last = m.GetId()
				}
			}
		}
		issued := map[uint64]bool{}
		var log []string
		removals, puts, absentReplaces := 0, 0, 0
		var removed []uint64
		mk := func(q string) *evmtypes.Message {
			ref := strings.Split(q, "/")[1]
			return &evmtypes.Message{TurnstoneID: "compass-1", ChainReferenceID: ref, Assignee: c.Vals[0].Val().String(), AssigneeRemoteAddress: "0x00000000000000000000000000000000000000a1",
				Action: &evmtypes.Message_SubmitLogicCall{SubmitLogicCall: &evmtypes.SubmitLogicCall{HexContractAddress: "0x00000000000000000000000000000000000000aa", Payload: []byte{1}, Deadline: 99, SenderAddress: make([]byte, 20), Fees: &evmtypes.Fees{}}}}
		}
		c05put := func(t *rapid.T) {
			q := rapid.SampledFrom(queues).Draw(t, "queue")
			id, err := c.App.ConsensusKeeper.PutMessageInQueue(ctx, q, mk(q), &consensus.PutOptions{RequireSignatures: true, RequireGasEstimation: rapid.Bool().Draw(t, "gas")})
			if err != nil {
				t.Fatalf("put: %v", err)
			}
			if issued[id] {
				t.Fatalf("id %d issued twice", id)
			}
			if id <= last {
				t.Fatalf("id %d issued after id %d", id, last)
			}
			issued[id], last = true, id
			live[q] = append(live[q], id)
			puts++
			log = append(log, fmt.Sprintf("put(%s)=%d", strings.Split(q, "/")[1], id))
		}
		t.Repeat(map[string]func(*rapid.T){
			"put":  func(t *rapid.T) { c05put(t) },
			"put2": func(t *rapid.T) { c05put(t) },
			"replace": func(t *rapid.T) {
				q := rapid.SampledFrom(queues).Draw(t, "queue")
				if len(live[q]) == 0 {
					t.Skip("empty queue")
				}
				old := rapid.SampledFrom(live[q]).Draw(t, "id")
				id, err := c.App.ConsensusKeeper.PutMessageInQueue(ctx, q, mk(q), &consensus.PutOptions{MsgIDToReplace: old})
				if err != nil {
					t.Fatalf("replace: %v", err)
				}
				if id != old {
					t.Fatalf("replace of %d returned id %d", old, id)
				}
				log = append(log, fmt.Sprintf("replace(%d)", old))
			},
			// a replace request naming an id that is not (or no longer) in that queue: an id removed earlier, or one that
			// lives in the other chain's queue. Whatever the answer, no id may be handed out twice or out of order.
			"replaceAbsent": func(t *rapid.T) {
				q := rapid.SampledFrom(queues).Draw(t, "queue")
				var cands []uint64
				cands = append(cands, removed...)
				for _, o := range queues {
					if o != q {
						cands = append(cands, live[o]...)
					}
				}
				if len(cands) == 0 {
					t.Skip("no absent id known")
				}
				old := rapid.SampledFrom(cands).Draw(t, "id")
				id, err := c.App.ConsensusKeeper.PutMessageInQueue(ctx, q, mk(q), &consensus.PutOptions{MsgIDToReplace: old})
				log = append(log, fmt.Sprintf("replaceAbsent(%s,%d)=%v", strings.Split(q, "/")[1], old, err == nil))
				absentReplaces++
				if err == nil {
					if issued[id] || id <= last {
						t.Fatalf("replace of id %d, which is not in queue %s, stored a message under the already issued id %d (last issued %d)", old, q, id, last)
					}
					issued[id], last = true, id
					live[q] = append(live[q], id)
				}
			},
			"remove": func(t *rapid.T) {
				q := rapid.SampledFrom(queues).Draw(t, "queue")
				if len(live[q]) == 0 {
					t.Skip("empty queue")
				}
				i := rapid.IntRange(0, len(live[q])-1).Draw(t, "idx")
				id := live[q][i]
				removed = append(removed, id)
				if err := c.App.ConsensusKeeper.DeleteJob(ctx, q, id); err != nil {
					t.Fatalf("delete: %v", err)
				}
				live[q] = append(live[q][:i], live[q][i+1:]...)
				removals++
				log = append(log, fmt.Sprintf("rm(%d)", id))
			},
			"block": func(t *rapid.T) {
				if _, err := c.Block(); err != nil {
					t.Fatalf("block: %v", err)
				}
				ctx = c.Ctx()
				log = append(log, "block")
			},
			"": func(t *rapid.T) {
				seen := map[uint64]string{}
				for _, q := range queues {
					ms, err := c.App.ConsensusKeeper.GetMessagesFromQueue(ctx, q, 0)
					if err != nil {
						t.Fatalf("read: %v", err)
					}
					for _, m := range ms {
						if o, dup := seen[m.GetId()]; dup {
							t.Fatalf("id %d present in %s and %s", m.GetId(), o, q)
						}
						seen[m.GetId()] = q
					}
					// the queue holds exactly the ids the model has in it (nothing resurrected, nothing lost)
					want := map[uint64]bool{}
					for _, id := range live[q] {
						want[id] = true
					}
					if len(ms) != len(want) {
						t.Fatalf("queue %s holds %d messages, model %d (%v)", q, len(ms), len(want), live[q])
					}
					for _, m := range ms {
						if !want[m.GetId()] {
							t.Fatalf("queue %s holds id %d which the model does not have there", q, m.GetId())
						}
					}
				}
			},
		})
		trace := strings.Join(log, " ")
		evid.Case(t.Name(), trace, puts >= 2 && removals >= 1, []string{fmt.Sprintf("puts>=%d", min(puts/2*2, 8)), fmt.Sprintf("replaceAbsent=%d", min(absentReplaces, 3))}, func() any { return log })
	})
}

// Compass deployment messages are signed as keccak(bytecode || message id). For any way of writing the id after the
// bytecode, bytes at the boundary must not be able to change sides: candidates are built by appending the leading bytes
// of several plausible renderings of the id (fixed 8-byte big endian, minimal big endian, uvarint, decimal digits) to
// the bytecode and reading the rest as the other message's id.
func TestC05_UploadSigningBytesSeparateBytecodeFromId(t *testing.T) {
	evid.Check(t, 20000, 200000, func(t *rapid.T) {
		code := rapid.SliceOfN(rapid.Byte(), 1, 48).Draw(t, "bytecode")
		id := rapid.OneOf(rapid.Uint64Range(1, 300), rapid.Uint64Range(128, 1<<21), rapid.Uint64Range(1, 1<<62)).Draw(t, "id")
		enc := rapid.SampledFrom([]string{"be8", "beMinimal", "uvarint", "decimal"}).Draw(t, "rendering")
		var r []byte
		switch enc {
		case "be8":
			r = binary.BigEndian.AppendUint64(nil, id)
		case "beMinimal":
			r = new(big.Int).SetUint64(id).Bytes()
		case "uvarint":
			r = binary.AppendUvarint(nil, id)
		default:
			r = []byte(fmt.Sprint(id))
		}
		if len(r) < 2 {
			t.Skip("rendering too short to split")
		}
		k := rapid.IntRange(1, len(r)-1).Draw(t, "bytesMoved")
		rest := r[k:]
		var id2 uint64
		ok := true
		switch enc {
		case "be8", "beMinimal":
			id2 = new(big.Int).SetBytes(rest).Uint64()
		case "uvarint":
			v, n := binary.Uvarint(rest)
			ok = n == len(rest)
			id2 = v
		default:
			_, err := fmt.Sscan(string(rest), &id2)
			ok = err == nil && rest[0] != '0'
		}
		if !ok {
			t.Skip("the remainder is not a rendering of an id")
		}
		code2 := append(append([]byte(nil), code...), r[:k]...)
		q := "evm/eth-main/evm-turnstone-message"
		_ = q
		bytesOf := func(code []byte, id uint64) []byte {
			m := &evmtypes.Message{TurnstoneID: "compass-1", ChainReferenceID: "eth-main", Assignee: "a", Action: &evmtypes.Message_UploadSmartContract{UploadSmartContract: &evmtypes.UploadSmartContract{Bytecode: code, Abi: "[]", ConstructorInput: nil, Id: 1}}}
			bz, err := m.Keccak256WithSignedMessage(&consensustypes.QueuedSignedMessage{Id: id})
			if err != nil {
				t.Fatalf("signing bytes: %v", err)
			}
			return bz
		}
		if bytes.Equal(bytesOf(code, id), bytesOf(code2, id2)) {
			t.Fatalf("compass deployments (bytecode %x, message %d) and (bytecode %x, message %d) share their signing bytes", code, id, code2, id2)
		}
		evid.Case(t.Name(), fmt.Sprintf("%s %x/%d -> %x/%d", enc, code, id, code2, id2), true, []string{"rendering:" + enc}, func() any {
			return map[string]any{"rendering": enc, "bytecode": fmt.Sprintf("%x", code), "id": id, "bytecode2": fmt.Sprintf("%x", code2), "id2": id2}
		})
	})
}
