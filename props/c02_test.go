package props

// C02 — oracle safety: a claim takes effect only with >66 % of current bonded power from distinct validators,
// once, in consecutive nonce order.  Stateful search over votes for competing claims, power changes,
// periodic nonce catch-up, governance nonce overrides and compass re-activation.

import (
	"fmt"
	"math/big"
	"sort"
	"strings"
	"testing"

	sdkmath "cosmossdk.io/math"
	sdk "github.com/cosmos/cosmos-sdk/types"
	authtypes "github.com/cosmos/cosmos-sdk/x/auth/types"
	distrtypes "github.com/cosmos/cosmos-sdk/x/distribution/types"
	stakingtypes "github.com/cosmos/cosmos-sdk/x/staking/types"
	"pgregory.net/rapid"

	skywaytypes "github.com/palomachain/paloma/v2/x/skyway/types"

	"verif/harness/chain"
	"verif/harness/evid"
)

const c02Chain = "eth-main"
const c02ERC20 = "0x00000000000000000000000000000000000000E1"
const c02UnknownERC20 = "0x00000000000000000000000000000000000000E9"

// power distributions in units of consensus power (x 10^6 ugrain)
func c02Powers(t *rapid.T) []int64 {
	n := rapid.IntRange(3, 6).Draw(t, "nVals")
	kind := rapid.SampledFrom([]string{"equal", "boundary", "whale", "random", "thirds"}).Draw(t, "powerKind")
	out := make([]int64, n)
	switch kind {
	case "equal":
		for i := range out {
			out[i] = 100
		}
	case "thirds":
		out = []int64{335, 333, 332}
	case "boundary":
		// first k validators hold exactly 66% or 67% or 66%+1 of 1000*n
		total := int64(1000)
		head := rapid.SampledFrom([]int64{660, 661, 659, 670, 340, 330}).Draw(t, "head")
		k := rapid.IntRange(1, n-1).Draw(t, "k")
		splitInt(t, out[:k], head)
		splitInt(t, out[k:], total-head)
	case "whale":
		for i := range out {
			out[i] = int64(rapid.IntRange(1, 50).Draw(t, "small"))
		}
		out[rapid.IntRange(0, n-1).Draw(t, "who")] = int64(rapid.IntRange(50, 400).Draw(t, "whalePower"))
	default:
		for i := range out {
			out[i] = int64(rapid.IntRange(1, 1000).Draw(t, "p"))
		}
	}
	return out
}

func c02Indices(n int) []int {
	out := make([]int, n)
	for i := range out {
		out[i] = i
	}
	return out
}

func splitInt(t *rapid.T, dst []int64, total int64) {
	rem := total
	for i := range dst {
		left := int64(len(dst) - i - 1)
		if left == 0 {
			dst[i] = rem
			return
		}
		v := int64(rapid.IntRange(1, int(rem-left)).Draw(t, "split"))
		dst[i] = v
		rem -= v
	}
}

type c02Claim struct {
	kind     string // deposit | depositUnknownToken | depositBadReceiver
	nonce    uint64
	variant  int
	amount   int64
	receiver string
	height   uint64
	compass  string
	token    string
}

func (c c02Claim) id() string {
	return fmt.Sprintf("%s/n%d/v%d/a%d/r%s/h%d/c%s/t%s", c.kind, c.nonce, c.variant, c.amount, c.receiver, c.height, c.compass, c.token)
}

func TestC02_OracleSafety(t *testing.T) {
	evid.Check(t, 120, 500, func(t *rapid.T) {
		salt := fmt.Sprintf("c02-%d", rapid.IntRange(0, 1<<30).Draw(t, "salt"))
		powers := c02Powers(t)
		stakes := make([]int64, len(powers))
		for i, p := range powers {
			stakes[i] = p * 1_000_000
		}
		c, err := chain.New(chain.Options{Salt: salt, Stakes: stakes, Users: []string{"alice", "bob", "carol"}, EvmChains: []chain.EvmChain{{RefID: c02Chain, ChainID: 1}}})
		if err != nil {
			t.Fatalf("boot: %v", err)
		}
		defer c.Close()
		if err := c.Ready(); err != nil {
			t.Fatalf("ready: %v", err)
		}
		alice, bob, carol := c.Users["alice"], c.Users["bob"], c.Users["carol"]
		tok, err := c.SetupToken(alice, "tok", sdkmath.NewInt(1_000_000), c02Chain, c02ERC20)
		if err != nil {
			t.Fatalf("token: %v", err)
		}
		receivers := []chain.Actor{bob, carol}
		compass := "compass-1"
		prevCompass := ""
		epoch := 0
		var log []string

		// shadow state
		votes := map[string]map[string]bool{} // epoch-independent: claim id -> set of validator operator addresses whose vote tx succeeded
		applied := map[string]int{}           // claim id -> times observed
		observedKeys := map[string]bool{}     // attestation store keys seen as observed
		observedAt := map[string]string{}     // epoch/compass/nonce -> claim id
		modelBal := map[string]*big.Int{bob.Addr.String(): new(big.Int), carol.Addr.String(): new(big.Int)}
		modelPool := new(big.Int)
		modelSupply := big.NewInt(1_000_000)
		competing, powerChangeBetween, resets := false, false, 0
		exactThreshold := false
		pendingVoteSincePowerChange := false
		var nObserved int
		issued := map[string]c02Claim{}

		cursor := func() uint64 {
			n, err := c.App.SkywayKeeper.GetLastObservedSkywayNonce(c.ReadCtx(), c02Chain)
			if err != nil {
				t.Fatalf("cursor: %v", err)
			}
			return n
		}
		prevCursor := cursor()

		// Remote block heights: event n of a deployment happened at height base+10n (a competing claim may report
		// +5). A new deployment (activateCompass) starts at later blocks (base is bumped); a governance nonce
		// override does NOT change the remote chain, so validators replay the very same events afterwards.
		heightBase := uint64(1000)
		menu := func(nonce uint64) []c02Claim {
			r0, r1 := receivers[0].Addr.String(), receivers[1].Addr.String()
			h := heightBase + 10*nonce
			return []c02Claim{
				{kind: "deposit", nonce: nonce, variant: 0, amount: 100 + int64(nonce), receiver: r0, height: h, compass: compass, token: c02ERC20},
				{kind: "deposit", nonce: nonce, variant: 1, amount: 5, receiver: r1, height: h, compass: compass, token: c02ERC20},
				{kind: "deposit", nonce: nonce, variant: 2, amount: 100 + int64(nonce), receiver: r0, height: h + 5, compass: compass, token: c02ERC20},
				{kind: "depositUnknownToken", nonce: nonce, variant: 3, amount: 7, receiver: r0, height: h, compass: compass, token: c02UnknownERC20},
				{kind: "depositBadReceiver", nonce: nonce, variant: 4, amount: 9, receiver: "not-an-address", height: h, compass: compass, token: c02ERC20},
			}
		}
		maxNonceSeen := uint64(0)
		onReset := func() {
			heightBase += 10 * (maxNonceSeen + 2)
		}
		mkMsg := func(v *chain.Validator, cl c02Claim) sdk.Msg {
			return &skywaytypes.MsgSendToPalomaClaim{
				EventNonce: cl.nonce, EthBlockHeight: cl.height, TokenContract: cl.token, Amount: sdkmath.NewInt(cl.amount),
				EthereumSender: "0x00000000000000000000000000000000000000b1", PalomaReceiver: cl.receiver, Orchestrator: v.Addr.String(),
				ChainReferenceId: c02Chain, Metadata: chain.MD(v.Actor), SkywayNonce: cl.nonce, CompassId: cl.compass,
			}
		}
		// after every block: find newly observed attestations and judge them
		judge := func(t *rapid.T) {
			atts, err := c.Attestations(c02Chain)
			if err != nil {
				t.Fatalf("attestations: %v", err)
			}
			pw, total, err := c.LastPowers()
			if err != nil {
				t.Fatalf("powers: %v", err)
			}
			var newly []chain.AttView
			for _, a := range atts {
				if a.Observed && !observedKeys[a.Key] {
					observedKeys[a.Key] = true
					newly = append(newly, a)
				}
			}
			sort.Slice(newly, func(i, j int) bool { return newly[i].Claim.GetSkywayNonce() < newly[j].Claim.GetSkywayNonce() })
			for i, a := range newly {
				cl := a.Claim.(*skywaytypes.MsgSendToPalomaClaim)
				// identify the claim among the claims voted for by its full content
				var id string
				var mc c02Claim
				for _, m := range issued {
					if m.nonce == cl.SkywayNonce && m.compass == cl.CompassId && m.amount == cl.Amount.Int64() && m.receiver == cl.PalomaReceiver && m.height == cl.EthBlockHeight && m.token == cl.TokenContract {
						id, mc = m.id(), m
					}
				}
				if id == "" {
					t.Fatalf("observed a claim nobody voted for: %+v", cl)
				}
				// (a) > 66 % of current power from DISTINCT validators that voted for this identical claim
				sum := int64(0)
				var voters []string
				for v := range votes[id] {
					voters = append(voters, v)
				}
				sort.Strings(voters)
				for _, v := range voters {
					sum += pw[v]
				}
				if !(sum*100 > 66*total) {
					t.Fatalf("claim %s observed with distinct voters %v holding %d of %d power (need > 66%%); stored vote list %v", id, voters, sum, total, a.Votes)
				}
				// claims take effect per bridge deployment: one reported for another deployment than the active one never does
				if cl.CompassId != compass {
					t.Fatalf("claim %s of deployment %q took effect while deployment %q is the active one (history %v)", id, cl.CompassId, compass, log)
				}
				// (b) consecutive nonce order
				if cl.SkywayNonce != prevCursor+uint64(i)+1 {
					t.Fatalf("claim at nonce %d observed while cursor was %d (+%d observed before it in this block)", cl.SkywayNonce, prevCursor, i)
				}
				// (c) one claim per (epoch, compass, nonce)
				slot := fmt.Sprintf("e%d/%s/n%d", epoch, cl.CompassId, cl.SkywayNonce)
				if other, dup := observedAt[slot]; dup {
					t.Fatalf("two claims observed at %s: %s and %s", slot, other, id)
				}
				observedAt[slot] = id
				// (d) effects
				applied[id]++
				if applied[id] > 1 {
					t.Fatalf("claim %s observed/applied twice", id)
				}
				switch mc.kind {
				case "deposit":
					modelBal[mc.receiver].Add(modelBal[mc.receiver], big.NewInt(mc.amount))
					modelSupply.Add(modelSupply, big.NewInt(mc.amount))
				case "depositBadReceiver":
					modelPool.Add(modelPool, big.NewInt(mc.amount))
					modelSupply.Add(modelSupply, big.NewInt(mc.amount))
				}
				nObserved++
			}
			// (e) cursor moves only by observation
			if got := cursor(); got != prevCursor+uint64(len(newly)) {
				for _, a := range atts {
					t.Logf("att nonce=%d compass=%s observed=%v votes=%v claim=%v", a.Claim.GetSkywayNonce(), a.Claim.GetCompassID(), a.Observed, a.Votes, a.Claim)
				}
				t.Fatalf("cursor moved from %d to %d with %d observations in the block (history %v)", prevCursor, got, len(newly), log)
			}
			prevCursor = cursor()
			// effects: balances, community pool, supply
			ctx := c.ReadCtx()
			for _, r := range receivers {
				got := c.App.BankKeeper.GetBalance(ctx, r.Addr, tok.Denom).Amount.BigInt()
				if got.Cmp(modelBal[r.Addr.String()]) != 0 {
					t.Fatalf("receiver %s holds %s of the bridged token, observed deposits sum to %s", r.Name, got, modelBal[r.Addr.String()])
				}
			}
			pool := c.App.BankKeeper.GetBalance(ctx, authtypes.NewModuleAddress(distrtypes.ModuleName), tok.Denom).Amount.BigInt()
			if pool.Cmp(modelPool) != 0 {
				t.Fatalf("community pool holds %s, expected %s", pool, modelPool)
			}
			if got := c.App.BankKeeper.GetSupply(ctx, tok.Denom).Amount.BigInt(); got.Cmp(modelSupply) != 0 {
				t.Fatalf("supply %s, expected %s", got, modelSupply)
			}
		}
		block := func(t *rapid.T, txs ...[]byte) []bool {
			res, err := c.Block(txs...)
			if err != nil {
				t.Fatalf("block: %v", err)
			}
			oks := make([]bool, len(txs))
			for i := range txs {
				oks[i] = res.TxResults[i].Code == 0
			}
			return oks
		}
		valNonce := func(v *chain.Validator) uint64 {
			n, err := c.App.SkywayKeeper.GetLastSkywayNonceByValidator(c.ReadCtx(), v.Val(), c02Chain)
			if err != nil {
				t.Fatalf("val nonce: %v", err)
			}
			return n
		}

		type pv struct {
			v  *chain.Validator
			cl c02Claim
		}
		// cast delivers one block of votes and records the successful ones in the shadow state
		cast := func(t *rapid.T, pvs []pv, txs [][]byte) {
			oks := block(t, txs...)
			for i, p := range pvs {
				log = append(log, fmt.Sprintf("vote(v%d,n%d,var%d)=%v", p.v.Index, p.cl.nonce, p.cl.variant, oks[i]))
				if oks[i] {
					id := p.cl.id()
					issued[id] = p.cl
					if p.cl.nonce > maxNonceSeen {
						maxNonceSeen = p.cl.nonce
					}
					if votes[id] == nil {
						votes[id] = map[string]bool{}
					}
					votes[id][p.v.Val().String()] = true
					pendingVoteSincePowerChange = true
					// competing claims at one nonce?
					for _, m := range issued {
						if m.nonce == p.cl.nonce && m.compass == p.cl.compass && m.id() != id {
							competing = true
						}
					}
				}
			}
		}

		t.Repeat(map[string]func(*rapid.T){
			"voteBlock": func(t *rapid.T) {
				k := rapid.IntRange(1, len(c.Vals)).Draw(t, "nVotes")
				var pvs []pv
				var txs [][]byte
				used := map[int]bool{}
				for i := 0; i < k; i++ {
					vi := rapid.IntRange(0, len(c.Vals)-1).Draw(t, "voter")
					if used[vi] {
						continue
					}
					used[vi] = true
					v := c.Vals[vi]
					var nonce uint64
					switch rapid.IntRange(0, 9).Draw(t, "nonceChoice") {
					case 0:
						nonce = prevCursor
					case 1:
						nonce = prevCursor + 2
					case 2:
						nonce = prevCursor + 1
					default:
						nonce = valNonce(v) + 1
					}
					if nonce == 0 {
						nonce = 1
					}
					m := menu(nonce)
					// variant 0 is the "honest" claim and is voted most of the time
					vi2 := 0
					if rapid.IntRange(0, 9).Draw(t, "competing?") >= 6 {
						vi2 = rapid.IntRange(1, len(m)-1).Draw(t, "variant")
					}
					cl := m[vi2]
					if prevCompass != "" && rapid.IntRange(0, 4).Draw(t, "lateVoteForOldDeployment") == 0 {
						// a slow relayer still reports an event of the previous bridge deployment
						cl.compass = prevCompass
					}
					pvs = append(pvs, pv{v, cl})
					txs = append(txs, c.MustSign(v.Actor, mkMsg(v, cl)))
				}
				cast(t, pvs, txs)
				judge(t)
			},
			// A governance override to the cursor's own value makes every validator able to vote at the next nonce
			// again; those who already voted for a still-pending claim now vote for a competitor, the others split.
			"overrideAndSplitRevote": func(t *rapid.T) {
				if resets > 3 {
					t.Skip("enough resets")
				}
				m := menu(prevCursor + 1)
				ai := -1
				for i, cl := range m {
					if len(votes[cl.id()]) > 0 && applied[cl.id()] == 0 {
						ai = i
						break
					}
				}
				if ai < 0 {
					t.Skip("no pending claim at the next nonce")
				}
				if err := c.Gov(&skywaytypes.MsgNonceOverrideProposal{Metadata: chain.GovMD(), ChainReferenceId: c02Chain, Nonce: prevCursor}); err != nil {
					t.Fatalf("override to the cursor's own value %d: %v", prevCursor, err)
				}
				log = append(log, fmt.Sprintf("govOverride(%d)=true", prevCursor))
				epoch++
				resets++
				if got := cursor(); got != prevCursor {
					t.Fatalf("override to %d left cursor at %d", prevCursor, got)
				}
				bi := (ai + rapid.IntRange(1, len(m)-1).Draw(t, "competitor")) % len(m)
				// ... or the earlier voters simply repeat their vote for the same claim (their power must not count twice)
				repeat := rapid.Bool().Draw(t, "repeatSameClaim")
				var pvs []pv
				var txs [][]byte
				for _, vi := range rapid.Permutation(c02Indices(len(c.Vals))).Draw(t, "voteOrder") {
					v := c.Vals[vi]
					var cl c02Claim
					if votes[m[ai].id()][v.Val().String()] {
						cl = m[bi]
						if repeat {
							cl = m[ai]
						}
					} else {
						switch rapid.IntRange(0, 2).Draw(t, "side") {
						case 0:
							cl = m[ai]
						case 1:
							cl = m[bi]
						default:
							continue
						}
					}
					pvs = append(pvs, pv{v, cl})
					txs = append(txs, c.MustSign(v.Actor, mkMsg(v, cl)))
				}
				cast(t, pvs, txs)
				judge(t)
			},
			// the subset of validators whose combined power is (one of the three) closest to the 66% line - on either side of
			// it or exactly on it - votes the honest claim at the next nonce; nobody else votes in that block
			"voteNearThreshold": func(t *rapid.T) {
				pw, total, err := c.LastPowers()
				if err != nil {
					t.Fatalf("powers: %v", err)
				}
				type cand struct {
					mask int
					dist int64
				}
				var cands []cand
				for mask := 1; mask < 1<<len(c.Vals); mask++ {
					sum := int64(0)
					for i, v := range c.Vals {
						if mask&(1<<i) != 0 {
							sum += pw[v.Val().String()]
						}
					}
					d := sum*100 - 66*total
					if d < 0 {
						d = -d
					}
					cands = append(cands, cand{mask, d})
				}
				sort.Slice(cands, func(i, j int) bool {
					if cands[i].dist != cands[j].dist {
						return cands[i].dist < cands[j].dist
					}
					return cands[i].mask < cands[j].mask
				})
				pick := cands[rapid.IntRange(0, min(2, len(cands)-1)).Draw(t, "rank")]
				cl := menu(prevCursor + 1)[0]
				var pvs []pv
				var txs [][]byte
				for i, v := range c.Vals {
					if pick.mask&(1<<i) != 0 {
						pvs = append(pvs, pv{v, cl})
						txs = append(txs, c.MustSign(v.Actor, mkMsg(v, cl)))
					}
				}
				if pick.dist == 0 {
					exactThreshold = true
				}
				cast(t, pvs, txs)
				judge(t)
			},
			"emptyBlocks": func(t *rapid.T) {
				if rapid.IntRange(0, 5).Draw(t, "toNext50?") == 0 {
					// periodic validator-nonce catch-up happens at multiples of 50
					target := (c.H/50 + 1) * 50
					for c.H <= target {
						block(t)
						judge(t)
					}
					log = append(log, fmt.Sprintf("advanceTo(%d)", target))
					return
				}
				n := rapid.IntRange(1, 3).Draw(t, "n")
				for i := 0; i < n; i++ {
					block(t)
					judge(t)
				}
				log = append(log, fmt.Sprintf("empty(%d)", n))
			},
			"delegate": func(t *rapid.T) {
				v := c.Vals[rapid.IntRange(0, len(c.Vals)-1).Draw(t, "val")]
				amt := int64(rapid.IntRange(1, 400).Draw(t, "power")) * 1_000_000
				msg := stakingtypes.NewMsgDelegate(alice.Addr.String(), v.Val().String(), sdk.NewCoin(chain.BondDenom, sdkmath.NewInt(amt)))
				oks := block(t, c.MustSign(alice, msg))
				log = append(log, fmt.Sprintf("delegate(v%d,%d)=%v", v.Index, amt/1_000_000, oks[0]))
				if oks[0] && pendingVoteSincePowerChange {
					powerChangeBetween = true
				}
				judge(t)
			},
			"undelegate": func(t *rapid.T) {
				v := c.Vals[rapid.IntRange(0, len(c.Vals)-1).Draw(t, "val")]
				frac := int64(rapid.IntRange(1, 9).Draw(t, "tenths"))
				amt := v.Stake.Int64() * frac / 10
				msg := stakingtypes.NewMsgUndelegate(v.Addr.String(), v.Val().String(), sdk.NewCoin(chain.BondDenom, sdkmath.NewInt(amt)))
				oks := block(t, c.MustSign(v.Actor, msg))
				log = append(log, fmt.Sprintf("undelegate(v%d,%d/10)=%v", v.Index, frac, oks[0]))
				if oks[0] && pendingVoteSincePowerChange {
					powerChangeBetween = true
				}
				judge(t)
			},
			"govOverrideNonce": func(t *rapid.T) {
				if resets > 3 {
					t.Skip("enough resets")
				}
				cur := prevCursor
				var n uint64
				switch rapid.IntRange(0, 3).Draw(t, "where") {
				case 0:
					n = 0
				case 1:
					if cur > 0 {
						n = cur - 1
					}
				case 2:
					n = cur
				default:
					n = cur + uint64(rapid.IntRange(1, 2).Draw(t, "ahead"))
				}
				err := c.Gov(&skywaytypes.MsgNonceOverrideProposal{Metadata: chain.GovMD(), ChainReferenceId: c02Chain, Nonce: n})
				log = append(log, fmt.Sprintf("govOverride(%d)=%v", n, err == nil))
				if err == nil {
					epoch++
					resets++
					prevCursor = cursor()
					if prevCursor != n {
						t.Fatalf("override to %d left cursor at %d", n, prevCursor)
					}
				}
			},
			"activateCompass": func(t *rapid.T) {
				if resets > 3 {
					t.Skip("enough resets")
				}
				newID := fmt.Sprintf("compass-%d", epoch+2)
				ctx := c.Ctx()
				sc, err := c.App.EvmKeeper.GetLastCompassContract(ctx)
				if err != nil {
					t.Fatalf("compass: %v", err)
				}
				if err := c.App.EvmKeeper.ActivateChainReferenceID(ctx, c02Chain, sc, "0x00000000000000000000000000000000000000c1", []byte(newID)); err != nil {
					t.Fatalf("activate: %v", err)
				}
				prevCompass = compass
				compass = newID
				epoch++
				resets++
				onReset()
				prevCursor = cursor()
				log = append(log, fmt.Sprintf("activate(%s)", newID))
				if prevCursor != 0 {
					t.Fatalf("activation left cursor at %d", prevCursor)
				}
			},
		})
		trace := strings.Join(log, " ")
		nt := nObserved > 0 && (competing || powerChangeBetween || resets > 0)
		labels := []string{fmt.Sprintf("observed=%d", min(nObserved, 6))}
		if competing {
			labels = append(labels, "competingClaims")
		}
		if powerChangeBetween {
			labels = append(labels, "powerChangeBetweenVoteAndTally")
		}
		if resets > 0 {
			labels = append(labels, "nonceReset")
		}
		if exactThreshold {
			labels = append(labels, "votersHoldExactly66Percent")
		}
		evid.Case(t.Name(), fmt.Sprintf("powers=%v %s", powers, trace), nt, labels, func() any { return map[string]any{"powers": powers, "history": log} })
	})
}
