package props

// C07 (user contract deployments): a queued UploadUserSmartContract message is delivered honestly - estimate elected,
// signed by everybody, call data built by the harness's own compass encoder - and attested with generated receipts.
// The deployment may become ACTIVE only for the matching transaction with a successful receipt that carries the
// ContractDeployed event; whatever the receipt's logs look like, the block that tallies the evidence must complete
// (the receipt's logs come from code the user deployed: C09).

import (
	"fmt"
	"math/big"
	"strings"
	"testing"

	codectypes "github.com/cosmos/cosmos-sdk/codec/types"
	sdk "github.com/cosmos/cosmos-sdk/types"
	"github.com/ethereum/go-ethereum/common"
	ethtypes "github.com/ethereum/go-ethereum/core/types"
	"github.com/ethereum/go-ethereum/crypto"
	"pgregory.net/rapid"

	consensustypes "github.com/palomachain/paloma/v2/x/consensus/types"
	evmtypes "github.com/palomachain/paloma/v2/x/evm/types"

	"verif/harness/cabi"
	"verif/harness/chain"
	"verif/harness/evid"
)

func TestC07_UserContractDeploymentDelivery(t *testing.T) {
	evid.Check(t, 60, 400, func(t *rapid.T) {
		salt := fmt.Sprintf("c07d-%d", rapid.IntRange(0, 1<<30).Draw(t, "salt"))
		n := rapid.IntRange(3, 4).Draw(t, "nVals")
		stakes := make([]int64, n)
		for i := range stakes {
			stakes[i] = int64(100+7*i) * 1_000_000
		}
		c, err := chain.New(chain.Options{Salt: salt, Stakes: stakes, Users: []string{"dev"}, EvmChains: []chain.EvmChain{{RefID: c07Chain, ChainID: 1}}})
		if err != nil {
			t.Fatalf("boot: %v", err)
		}
		defer c.Close()
		if err := c.Ready(); err != nil {
			t.Fatalf("ready: %v", err)
		}
		dev := c.Users["dev"]
		// the chain's contract deployer is a governance-controlled setting (fixture)
		if err := c.App.EvmKeeper.SetSmartContractDeployer(c.Ctx(), c07Chain, "0x00000000000000000000000000000000000000de"); err != nil {
			t.Fatalf("deployer: %v", err)
		}
		q := chain.TurnstoneQueue(c07Chain)
		blk := func(txs ...[]byte) []bool {
			res, err := c.Block(txs...)
			if err != nil {
				t.Fatalf("block production aborted: %v", err)
			}
			oks := make([]bool, len(txs))
			for i := range txs {
				oks[i] = res.TxResults[i].Code == 0
			}
			return oks
		}
		bytecode := "0x60" + strings.Repeat("ab", rapid.IntRange(1, 40).Draw(t, "codeLen"))
		if !blk(c.MustSign(dev, &evmtypes.MsgUploadUserSmartContractRequest{Metadata: chain.MD(dev), Title: "mine", AbiJson: "[]", Bytecode: bytecode, ConstructorInput: "0x"}))[0] {
			t.Fatalf("upload refused")
		}
		author := sdk.ValAddress(dev.Addr).String()
		contracts, err := c.App.EvmKeeper.UserSmartContracts(c.ReadCtx(), author)
		if err != nil || len(contracts) != 1 {
			t.Fatalf("uploaded contract not stored: %v %v", contracts, err)
		}
		id := contracts[0].Id
		if !blk(c.MustSign(dev, &evmtypes.MsgDeployUserSmartContractRequest{Metadata: chain.MD(dev), Id: id, TargetChain: c07Chain}))[0] {
			t.Fatalf("deploy request refused")
		}
		find := func() (consensustypes.QueuedSignedMessageI, *evmtypes.Message, *evmtypes.UploadUserSmartContract) {
			ms, _ := c.App.ConsensusKeeper.GetMessagesFromQueue(c.ReadCtx(), q, 0)
			for _, m := range ms {
				cm, err := m.ConsensusMsg(c.App.AppCodec())
				if err != nil {
					continue
				}
				if em, ok := cm.(*evmtypes.Message); ok {
					if a, ok := em.Action.(*evmtypes.Message_UploadUserSmartContract); ok {
						return m, em, a.UploadUserSmartContract
					}
				}
			}
			return nil, nil, nil
		}
		m, _, _ := find()
		if m == nil {
			t.Fatalf("no deployment message queued")
		}
		gas := uint64(rapid.IntRange(21000, 900000).Draw(t, "gas"))
		var txs [][]byte
		for _, v := range c.Vals {
			txs = append(txs, c.MustSign(v.Actor, &consensustypes.MsgAddMessageGasEstimates{Metadata: chain.MD(v.Actor), Estimates: []*consensustypes.MsgAddMessageGasEstimates_GasEstimate{{MsgId: m.GetId(), QueueTypeName: q, Value: gas, EstimatedByAddress: chain.EthAddr(v.EthKeys[c07Chain]).Hex()}}}))
		}
		blk(txs...)
		m, _, _ = find()
		if m == nil || m.GetGasEstimate() == 0 {
			t.Fatalf("estimate not elected")
		}
		bz, err := m.GetBytesToSign(c.App.AppCodec())
		if err != nil {
			t.Fatalf("bytes: %v", err)
		}
		txs = nil
		for _, v := range c.Vals {
			txs = append(txs, c.MustSign(v.Actor, &consensustypes.MsgAddMessagesSignatures{Metadata: chain.MD(v.Actor), SignedMessages: []*consensustypes.ConsensusMessageSignature{{Id: m.GetId(), QueueTypeName: q, Signature: chain.EthSign(v.EthKeys[c07Chain], bz), SignedByAddress: chain.EthAddr(v.EthKeys[c07Chain]).Hex()}}}))
		}
		for i, ok := range blk(txs...) {
			if !ok {
				t.Fatalf("signature %d rejected", i)
			}
		}
		m, em, act := find()
		onChain, err := c.App.ValsetKeeper.GetLatestSnapshotOnChain(c.ReadCtx(), c07Chain)
		if err != nil {
			t.Fatalf("no snapshot live on the chain: %v", err)
		}
		// the delivering call, built by the harness
		vs, addrs := c07SigningValset(onChain)
		cons := cabi.Consensus{Valset: vs}
		for _, a := range addrs {
			var found *consensustypes.SignData
			for _, s := range m.GetSignData() {
				if strings.EqualFold(s.ExternalAccountAddress, a) {
					found = s
				}
			}
			if found == nil {
				cons.Signatures = append(cons.Signatures, cabi.Sig{V: big.NewInt(0), R: big.NewInt(0), S: big.NewInt(0)})
			} else {
				cons.Signatures = append(cons.Signatures, cabi.Sig{V: big.NewInt(int64(found.Signature[64]) + 27), R: new(big.Int).SetBytes(found.Signature[:32]), S: new(big.Int).SetBytes(found.Signature[32:64])})
			}
		}
		if act.Fees == nil {
			t.Fatalf("no fees attached after the election")
		}
		fees := cabi.FeeArgs{RelayerFee: cabi.U(act.Fees.RelayerFee), CommunityFee: cabi.U(act.Fees.CommunityFee), SecurityFee: cabi.U(act.Fees.SecurityFee), FeePayerPalomaAddress: cabi.LeftPad32(act.SenderAddress)}
		code := append([]byte(nil), act.Bytecode...)
		variant := rapid.SampledFrom([]string{"deployed", "deployed", "topiclessLogFirst", "topiclessLogOnly", "noLogs", "otherEventOnly", "failedReceipt", "otherBytecode", "shortEventData"}).Draw(t, "variant")
		if variant == "otherBytecode" {
			code = append(code, 0x00)
		}
		data, err := cabi.DeployContract(cons, common.HexToAddress(act.DeployerAddress), code, fees, cabi.U(m.GetId()), big.NewInt(act.Deadline), common.HexToAddress(em.AssigneeRemoteAddress))
		if err != nil {
			t.Fatalf("encode: %v", err)
		}
		deployedAt := common.HexToAddress("0x00000000000000000000000000000000000d3910")
		evTopic := crypto.Keccak256Hash([]byte("ContractDeployed(address,address,uint256)"))
		evData := append(append(common.LeftPadBytes(deployedAt.Bytes(), 32), common.LeftPadBytes(common.HexToAddress(act.DeployerAddress).Bytes(), 32)...), common.LeftPadBytes(new(big.Int).SetUint64(m.GetId()).Bytes(), 32)...)
		good := &ethtypes.Log{Address: common.Address{0xc1}, Topics: []common.Hash{evTopic}, Data: evData}
		receipt := &ethtypes.Receipt{Status: 1, CumulativeGasUsed: 100000, Logs: []*ethtypes.Log{good}}
		switch variant {
		case "topiclessLogFirst":
			// the deployed code's constructor emits an anonymous event (LOG0) before compass reports the deployment
			receipt.Logs = []*ethtypes.Log{{Address: common.Address{0xd3}, Topics: nil, Data: []byte{1, 2, 3}}, good}
		case "topiclessLogOnly":
			receipt.Logs = []*ethtypes.Log{{Address: common.Address{0xd3}, Topics: []common.Hash{}, Data: nil}}
		case "noLogs":
			receipt.Logs = nil
		case "otherEventOnly":
			receipt.Logs = []*ethtypes.Log{{Address: common.Address{0xd3}, Topics: []common.Hash{crypto.Keccak256Hash([]byte("Other()"))}}}
		case "failedReceipt":
			receipt.Status = 0
		case "shortEventData":
			receipt.Logs = []*ethtypes.Log{{Address: common.Address{0xc1}, Topics: []common.Hash{evTopic}, Data: evData[:40]}}
		}
		tx := ethtypes.NewTx(&ethtypes.LegacyTx{Nonce: 9, To: &common.Address{0xc1}, Gas: 900000, GasPrice: big.NewInt(1), Data: data})
		txbz, _ := tx.MarshalBinary()
		rbz, _ := receipt.MarshalBinary()
		proof, _ := codectypes.NewAnyWithValue(&evmtypes.TxExecutedProof{SerializedTX: txbz, SerializedReceipt: rbz})
		var assignee *chain.Validator
		for _, v := range c.Vals {
			if v.Val().String() == em.Assignee {
				assignee = v
			}
		}
		if assignee == nil {
			t.Fatalf("assignee %s is not a validator", em.Assignee)
		}
		blk(c.MustSign(assignee.Actor, &consensustypes.MsgSetPublicAccessData{Metadata: chain.MD(assignee.Actor), MessageID: m.GetId(), QueueTypeName: q, Data: []byte{0xaa}, ValsetID: onChain.Id}))
		txs = nil
		for _, v := range c.Vals {
			txs = append(txs, c.MustSign(v.Actor, &consensustypes.MsgAddEvidence{Metadata: chain.MD(v.Actor), Proof: proof, MessageID: m.GetId(), QueueTypeName: q}))
		}
		blk(txs...) // the end blocker of this block tallies the evidence: it must complete whatever the receipt holds
		blk()
		contracts, _ = c.App.EvmKeeper.UserSmartContracts(c.ReadCtx(), author)
		active := ""
		for _, sc := range contracts {
			for _, d := range sc.Deployments {
				if d.ChainReferenceId == c07Chain && d.Status == evmtypes.UserSmartContract_Deployment_ACTIVE {
					active = d.Address
				}
			}
		}
		expect := variant == "deployed"
		if expect && !strings.EqualFold(active, deployedAt.Hex()) {
			t.Fatalf("the delivering transaction with a successful receipt and the deployment event did not activate the deployment (active address %q, variant %s)", active, variant)
		}
		if !expect && active != "" {
			t.Fatalf("variant %s recorded the deployment as active at %s", variant, active)
		}
		evid.Case(t.Name(), fmt.Sprintf("%s gas=%d n=%d code=%d", variant, gas, n, len(code)), true, []string{"deployVariant:" + variant}, func() any {
			return map[string]any{"variant": variant, "activeAddress": active}
		})
	})
}
