package props

// C11 — votes are pooled only for claims identical in every effect-bearing field.
// (1) reflection-driven metamorphic check on the tally identity (chain store prefix + attestation key):
//     changing one field the statement lists must change the identity;
// (2) differential: whenever two claims share the identity, driving either to observation on identically
//     prepared fresh chains must give the same acceptance and the same resulting state.

import (
	"encoding/hex"
	"fmt"
	"math/big"
	"reflect"
	"strings"
	"testing"

	sdkmath "cosmossdk.io/math"
	sdk "github.com/cosmos/cosmos-sdk/types"
	"pgregory.net/rapid"

	skywaytypes "github.com/palomachain/paloma/v2/x/skyway/types"

	"verif/harness/chain"
	"verif/harness/evid"
	"verif/harness/project"
)

// fields the statement names as effect-bearing, by Go field name
var c11Listed = map[string]string{
	"SkywayNonce": "nonce", "EthBlockHeight": "remote block height", "TokenContract": "token", "Amount": "amount",
	"EthereumSender": "sender", "PalomaReceiver": "receiver", "BatchNonce": "batch nonce", "ClientAddress": "buyer address",
	"SmartContractAddress": "originating contract", "CompassId": "bridge deployment id", "ChainReferenceId": "chain",
}

var c11Skip = map[string]bool{"Orchestrator": true, "Metadata": true}

func c11Identity(c skywaytypes.EthereumClaim) string {
	h, err := c.ClaimHash()
	if err != nil {
		panic(err)
	}
	return c.GetChainReferenceId() + "|" + hex.EncodeToString(skywaytypes.GetAttestationKey(c.GetSkywayNonce(), h))
}

func c11EthAddr(t *rapid.T, label string) string {
	b := rapid.SliceOfN(rapid.Byte(), 20, 20).Draw(t, label)
	return "0x" + hex.EncodeToString(b)
}

func c11Bech32(t *rapid.T, label string) string {
	return sdk.AccAddress(rapid.SliceOfN(rapid.Byte(), 20, 20).Draw(t, label)).String()
}

// c11Value draws a valid value for a claim field (by name and kind).
func c11Value(t *rapid.T, name string, kind reflect.Kind, label string) any {
	switch name {
	case "TokenContract", "EthereumSender", "SmartContractAddress":
		return c11EthAddr(t, label)
	case "PalomaReceiver":
		return rapid.OneOf(rapid.Custom(func(t *rapid.T) string { return c11Bech32(t, label) }), rapid.StringMatching(`[a-z0-9/]{0,12}`)).Draw(t, label)
	case "ClientAddress":
		return c11Bech32(t, label)
	case "CompassId":
		return rapid.OneOf(rapid.StringMatching(`compass-[0-9]{1,3}`), rapid.StringMatching(`[0-9]{1,9}`), rapid.StringMatching(`compass-[0-9]{1,3}`), rapid.StringMatching(`[a-z0-9/]{1,8}`)).Draw(t, label)
	case "ChainReferenceId":
		return rapid.SampledFrom([]string{"eth-main", "bnb-main", "eth", "base-main", "x"}).Draw(t, label)
	case "Amount":
		// token amounts are 256-bit quantities (18-decimal tokens pass 2^64 at about 18.4 tokens)
		if rapid.IntRange(0, 2).Draw(t, label+".big") == 0 {
			hi := sdkmath.NewIntFromUint64(rapid.Uint64Range(1, 1<<62).Draw(t, label+".hi"))
			lo := sdkmath.NewIntFromUint64(rapid.Uint64().Draw(t, label+".lo"))
			return hi.Mul(sdkmath.NewIntFromBigInt(new(big.Int).Lsh(big.NewInt(1), 64))).Add(lo)
		}
		return sdkmath.NewIntFromUint64(rapid.Uint64Range(1, 1<<62).Draw(t, label))
	}
	switch kind {
	case reflect.Uint64:
		return rapid.OneOf(rapid.Uint64Range(1, 50), rapid.Uint64Range(1, 1<<63)).Draw(t, label)
	case reflect.String:
		return rapid.StringMatching(`[a-z0-9]{1,10}`).Draw(t, label)
	}
	return nil
}

// c11FlipCase changes the letter case of 1..n letters of s (s unchanged when it has no letters).
func c11FlipCase(t *rapid.T, s string) string {
	b := []byte(s)
	var letters []int
	for i, ch := range b {
		if (ch >= 'a' && ch <= 'z') || (ch >= 'A' && ch <= 'Z') {
			letters = append(letters, i)
		}
	}
	if len(letters) == 0 {
		return s
	}
	if rapid.Bool().Draw(t, "flipAllLetters") {
		for _, i := range letters {
			b[i] ^= 0x20
		}
		return string(b)
	}
	k := rapid.IntRange(1, min(3, len(letters))).Draw(t, "flips")
	for j := 0; j < k; j++ {
		b[letters[rapid.IntRange(0, len(letters)-1).Draw(t, "letter")]] ^= 0x20
	}
	return string(b)
}

func c11NewClaim(kind int) skywaytypes.EthereumClaim {
	switch kind {
	case 0:
		return &skywaytypes.MsgSendToPalomaClaim{}
	case 1:
		return &skywaytypes.MsgBatchSendToRemoteClaim{}
	default:
		return &skywaytypes.MsgLightNodeSaleClaim{}
	}
}

func c11Fields(c skywaytypes.EthereumClaim) []reflect.StructField {
	var fs []reflect.StructField
	rt := reflect.TypeOf(c).Elem()
	for i := 0; i < rt.NumField(); i++ {
		f := rt.Field(i)
		if c11Skip[f.Name] || !f.IsExported() || strings.HasPrefix(f.Name, "XXX") {
			continue
		}
		fs = append(fs, f)
	}
	return fs
}

func c11Fill(t *rapid.T, c skywaytypes.EthereumClaim) {
	rv := reflect.ValueOf(c).Elem()
	for _, f := range c11Fields(c) {
		v := c11Value(t, f.Name, f.Type.Kind(), "base."+f.Name)
		if v == nil {
			t.Fatalf("claim field %s of %T has a kind the generator does not know (%s): extend c11Value", f.Name, c, f.Type)
		}
		rv.FieldByName(f.Name).Set(reflect.ValueOf(v))
	}
	orch := chain.MkActor("c11-orch")
	rv.FieldByName("Orchestrator").SetString(orch.Addr.String())
	rv.FieldByName("Metadata").Set(reflect.ValueOf(chain.MD(orch)))
}

func c11Clone(c skywaytypes.EthereumClaim) skywaytypes.EthereumClaim {
	n := reflect.New(reflect.TypeOf(c).Elem())
	n.Elem().Set(reflect.ValueOf(c).Elem())
	return n.Interface().(skywaytypes.EthereumClaim)
}

func TestC11_ClaimIdentityBindsFields(t *testing.T) {
	evid.Check(t, 30000, 300000, func(t *rapid.T) {
		kind := rapid.IntRange(0, 2).Draw(t, "claimType")
		base := c11NewClaim(kind)
		c11Fill(t, base)
		fields := c11Fields(base)
		f := rapid.SampledFrom(fields).Draw(t, "field")
		mut := c11Clone(base)
		nv := c11Value(t, f.Name, f.Type.Kind(), "new."+f.Name)
		old := reflect.ValueOf(base).Elem().FieldByName(f.Name).Interface()
		// Receiver and sale contract are used as plain strings by the handlers (mixed-case bech32 does not decode: the
		// deposit goes to the community pool; the sale contract is compared byte-wise with the registered one), so a
		// spelling that differs only in letter case is a different effect as well.
		if (f.Name == "PalomaReceiver" || f.Name == "SmartContractAddress") && rapid.IntRange(0, 3).Draw(t, "caseFlipOnly") == 0 {
			nv = c11FlipCase(t, old.(string))
		}
		// amounts that agree in their low 64 bits (a fixed-width rendering would not tell them apart)
		if f.Name == "Amount" && rapid.IntRange(0, 3).Draw(t, "sameLow64Bits") == 0 {
			k := sdkmath.NewIntFromUint64(rapid.Uint64Range(1, 1000).Draw(t, "multiplesOf2^64"))
			nv = old.(sdkmath.Int).Add(k.Mul(sdkmath.NewIntFromBigInt(new(big.Int).Lsh(big.NewInt(1), 64))))
		}
		// The deployment id is compared byte-wise with the chain's latest compass id (claims with another spelling are
		// never tallied; compass ids are bytes32 values, NUL-padded on the right) and the receiver is bech32-decoded:
		// padding is a different value there, too.
		if (f.Name == "CompassId" || f.Name == "PalomaReceiver") && rapid.IntRange(0, 3).Draw(t, "paddingOnly") == 0 {
			pad := rapid.SampledFrom([]string{"\x00", "\x00\x00\x00", " ", "\n"}).Draw(t, "pad")
			o := old.(string)
			if rapid.Bool().Draw(t, "padBase") {
				// the base claim carries the padded spelling, the mutant the trimmed one
				reflect.ValueOf(base).Elem().FieldByName(f.Name).SetString(o + pad)
				old, nv = o+pad, o
			} else {
				nv = o + pad
			}
		}
		if fmt.Sprint(old) == fmt.Sprint(nv) {
			t.Skip("same value drawn")
		}
		reflect.ValueOf(mut).Elem().FieldByName(f.Name).Set(reflect.ValueOf(nv))
		if base.ValidateBasic() != nil || mut.ValidateBasic() != nil {
			// a claim that fails its stateless validation can never be voted for: nothing can be pooled with it
			evid.Case(t.Name(), "rejected", false, []string{"rejectedStateless"}, nil)
			return
		}
		same := c11Identity(base) == c11Identity(mut)
		what, listed := c11Listed[f.Name]
		if same && listed {
			t.Fatalf("%T: changing %s (%s) from %v to %v leaves the tally identity unchanged: votes for claims with different effects are pooled", base, f.Name, what, old, nv)
		}
		label := fmt.Sprintf("%s.%s", reflect.TypeOf(base).Elem().Name(), f.Name)
		labels := []string{label}
		if same {
			labels = append(labels, "collides:"+label)
		}
		evid.Case(t.Name(), fmt.Sprintf("%T %s %v->%v base=%v", base, f.Name, old, nv, base), true, labels, func() any {
			return map[string]any{"type": fmt.Sprintf("%T", base), "field": f.Name, "from": fmt.Sprint(old), "to": fmt.Sprint(nv), "identityChanged": !same}
		})
	})
}

// Two numeric fields changed together so that their decimal renderings, written one after the other, stay the same
// (height 1002 / batch 3 -> height 100 / batch 23; also with a digit moving the other way): an identity that joins
// fields without an unambiguous separator cannot tell such claims apart.
func TestC11_DigitShiftBetweenNumericFields(t *testing.T) {
	evid.Check(t, 20000, 200000, func(t *rapid.T) {
		kind := rapid.IntRange(0, 2).Draw(t, "claimType")
		base := c11NewClaim(kind)
		c11Fill(t, base)
		var nums []reflect.StructField
		for _, f := range c11Fields(base) {
			if f.Type.Kind() == reflect.Uint64 {
				nums = append(nums, f)
			}
		}
		if len(nums) < 2 {
			t.Skip("fewer than two numeric fields")
		}
		i := rapid.IntRange(0, len(nums)-1).Draw(t, "first")
		j := rapid.IntRange(0, len(nums)-2).Draw(t, "second")
		if j >= i {
			j++
		}
		f1, f2 := nums[i], nums[j]
		rv := reflect.ValueOf(base).Elem()
		// small values so that moving digits stays within uint64 and values stay positive
		a := rapid.Uint64Range(10, 99_999_999).Draw(t, "a")
		b := rapid.Uint64Range(1, 9_999_999).Draw(t, "b")
		rv.FieldByName(f1.Name).SetUint(a)
		rv.FieldByName(f2.Name).SetUint(b)
		// move the last k digits of a to the front of b: str(a')+str(b') == str(a)+str(b)
		sa, sb := fmt.Sprint(a), fmt.Sprint(b)
		k := rapid.IntRange(1, len(sa)-1).Draw(t, "digitsMoved")
		na, nb := sa[:len(sa)-k], sa[len(sa)-k:]+sb
		if nb[0] == '0' {
			t.Skip("shifted value would get a leading zero")
		}
		var a2, b2 uint64
		fmt.Sscan(na, &a2)
		fmt.Sscan(nb, &b2)
		mut := c11Clone(base)
		mv := reflect.ValueOf(mut).Elem()
		mv.FieldByName(f1.Name).SetUint(a2)
		mv.FieldByName(f2.Name).SetUint(b2)
		if base.ValidateBasic() != nil || mut.ValidateBasic() != nil {
			evid.Case(t.Name(), "rejected", false, []string{"rejectedStateless"}, nil)
			return
		}
		same := c11Identity(base) == c11Identity(mut)
		_, l1 := c11Listed[f1.Name]
		_, l2 := c11Listed[f2.Name]
		if same && (l1 || l2) {
			t.Fatalf("%T: (%s, %s) = (%d, %d) and (%d, %d) share one tally identity: votes for claims with different effects are pooled", base, f1.Name, f2.Name, a, b, a2, b2)
		}
		label := fmt.Sprintf("%s.%s+%s", reflect.TypeOf(base).Elem().Name(), f1.Name, f2.Name)
		evid.Case(t.Name(), fmt.Sprintf("%s (%d,%d)->(%d,%d)", label, a, b, a2, b2), l1 || l2, []string{label}, func() any {
			return map[string]any{"type": fmt.Sprintf("%T", base), "fields": []string{f1.Name, f2.Name}, "from": []uint64{a, b}, "to": []uint64{a2, b2}, "identityChanged": !same}
		})
	})
}

// ---------------------------------------------------------------------------------------------------
// differential for colliding pairs

const c11Chain = "eth-main"
const c11ERC20 = "0x00000000000000000000000000000000000000E1"
const c11Sale = "0x00000000000000000000000000000000000000f7"

// c11Drive prepares a fresh chain (same salt => same addresses), lets every validator vote for the claim and
// returns (accepted votes, state digest without the attestation records).
func c11Drive(t *rapid.T, salt string, mk func(e *c11Env, v *chain.Validator) sdk.Msg) (int, map[string]string) {
	c, err := chain.New(chain.Options{Salt: salt, Stakes: []int64{100_000_000, 100_000_000, 100_000_000}, InitialHeight: 44,
		Users: []string{"ub", "funder", "granter"}, EvmChains: []chain.EvmChain{{RefID: c11Chain, ChainID: 1}}})
	if err != nil {
		t.Fatalf("boot: %v", err)
	}
	defer c.Close()
	if err := c.Ready(); err != nil {
		t.Fatalf("ready: %v", err)
	}
	e := &c11Env{c: c, ub: c.Users["ub"]}
	tok, err := c.SetupToken(e.ub, "tok", sdkmath.NewInt(1_000_000), c11Chain, c11ERC20)
	if err != nil {
		t.Fatalf("token: %v", err)
	}
	e.tok = tok
	ctx := c.Ctx()
	if err := c.App.PalomaKeeper.SetLightNodeClientFunders(ctx, []sdk.AccAddress{c.Users["funder"].Addr}); err != nil {
		t.Fatalf("funders: %v", err)
	}
	if err := c.App.PalomaKeeper.SetLightNodeClientFeegranter(ctx, c.Users["granter"].Addr); err != nil {
		t.Fatalf("feegranter: %v", err)
	}
	if err := c.App.SkywayKeeper.SetAllLighNodeSaleContracts(ctx, []*skywaytypes.LightNodeSaleContract{{ChainReferenceId: c11Chain, ContractAddress: c11Sale}}); err != nil {
		t.Fatalf("sale contracts: %v", err)
	}
	// an open batch (nonce 1) for executed-batch claims
	if _, err := c.Block(c.MustSign(e.ub, &skywaytypes.MsgSendToRemote{Metadata: chain.MD(e.ub), EthDest: "0x00000000000000000000000000000000000000d1", Amount: sdk.NewCoin(tok.Denom, sdkmath.NewInt(100)), ChainReferenceId: c11Chain})); err != nil {
		t.Fatalf("block: %v", err)
	}
	if err := c.AdvanceTo(51); err != nil {
		t.Fatalf("advance: %v", err)
	}
	var txs [][]byte
	for _, v := range c.Vals {
		txs = append(txs, c.MustSign(v.Actor, mk(e, v)))
	}
	res, err := c.Block(txs...)
	if err != nil {
		t.Fatalf("block: %v", err)
	}
	acc := 0
	for _, r := range res.TxResults {
		if r.Code == 0 {
			acc++
		}
	}
	if _, err := c.Block(); err != nil {
		t.Fatalf("block: %v", err)
	}
	dig := project.All(c, []string{"skyway", "paloma-store", "bank", "feegrant", "acc", "tokenfactory", "evm", "valset"})
	attPrefix := "skyway/" + hex.EncodeToString(append([]byte(c11Chain), skywaytypes.OracleAttestationKey...))
	for k := range dig {
		if strings.HasPrefix(k, attPrefix) {
			delete(dig, k)
		}
	}
	return acc, dig
}

type c11Env struct {
	c   *chain.Chain
	ub  chain.Actor
	tok chain.Token
}

func TestC11_CollidingClaimsSameEffect(t *testing.T) {
	evid.Check(t, 20, 100, func(t *rapid.T) {
		salt := fmt.Sprintf("c11-%d", rapid.IntRange(0, 1<<20).Draw(t, "salt"))
		kind := rapid.IntRange(0, 2).Draw(t, "claimType")
		// an applicable base claim at nonce 1 of the active deployment
		receiver := rapid.SampledFrom([]string{chain.MkActor(salt + "/user-ub").Addr.String(), "bad/receiver", "x"}).Draw(t, "receiver")
		compass := "compass-1"
		evA := rapid.Uint64Range(1, 1000).Draw(t, "eventNonceA")
		evB := rapid.Uint64Range(1, 1000).Draw(t, "eventNonceB")
		shape := rapid.SampledFrom([]string{"eventNonce", "eventNonce", "slashShift", "saleContract", "receiverCase", "saleContractCase", "tokenCase", "heightBatchDigitShift"}).Draw(t, "pairShape")
		recvA, recvB, compA, compB := receiver, receiver, compass, compass
		if shape == "slashShift" && kind == 0 {
			// "<recv>/<compass>" ambiguity: ("p/q","compass-1") vs ("p","q/compass-1")
			recvA, compA = "p/q", compass
			recvB, compB = "p", "q/"+compass
			evB = evA
		}
		if shape == "receiverCase" {
			kind = 0
			recvA = chain.MkActor(salt + "/user-ub").Addr.String()
			recvB = c11FlipCase(t, recvA)
			evB = evA
		}
		tokA, tokB := c11ERC20, c11ERC20
		if shape == "tokenCase" {
			if kind == 2 {
				kind = 0
			}
			tokB = c11FlipCase(t, tokA)
			evB = evA
		}
		// executed-batch claims (height 7001, batch 1) and (height 700, batch 11): the decimal renderings of height and
		// batch nonce written one after the other coincide; batch 1 is the open batch, batch 11 does not exist
		heightA, heightB, batchA, batchB := uint64(700), uint64(700), uint64(1), uint64(1)
		if shape == "heightBatchDigitShift" {
			kind = 1
			heightA, batchA = 7001, 1
			heightB, batchB = 700, 11
			evB = evA
		}
		client := chain.MkActor(salt + "/c11-client").Addr.String()
		saleA := rapid.SampledFrom([]string{c11Sale, "0x00000000000000000000000000000000000000f8"}).Draw(t, "saleContract")
		saleB := saleA
		if shape == "saleContract" {
			kind = 2
			saleA, saleB = c11Sale, "0x00000000000000000000000000000000000000f8"
			evB = evA
		}
		if shape == "saleContractCase" {
			kind = 2
			saleA, saleB = c11Sale, c11FlipCase(t, c11Sale)
			evB = evA
		}
		build := func(ev uint64, recv, comp string, saleAddr, tok string, height, batch uint64) func(e *c11Env, v *chain.Validator) sdk.Msg {
			return func(e *c11Env, v *chain.Validator) sdk.Msg {
				switch kind {
				case 0:
					return &skywaytypes.MsgSendToPalomaClaim{Metadata: chain.MD(v.Actor), Orchestrator: v.Addr.String(), EventNonce: ev, SkywayNonce: 1, EthBlockHeight: height, TokenContract: tok,
						Amount: sdkmath.NewInt(55), EthereumSender: "0x00000000000000000000000000000000000000b1", PalomaReceiver: recv, ChainReferenceId: c11Chain, CompassId: comp}
				case 1:
					return &skywaytypes.MsgBatchSendToRemoteClaim{Metadata: chain.MD(v.Actor), Orchestrator: v.Addr.String(), EventNonce: ev, SkywayNonce: 1, EthBlockHeight: height, BatchNonce: batch, TokenContract: tok,
						ChainReferenceId: c11Chain, CompassId: comp}
				default:
					return &skywaytypes.MsgLightNodeSaleClaim{Metadata: chain.MD(v.Actor), Orchestrator: v.Addr.String(), EventNonce: ev, SkywayNonce: 1, EthBlockHeight: height, ChainReferenceId: c11Chain,
						ClientAddress: client, Amount: sdkmath.NewInt(3), SmartContractAddress: saleAddr, CompassId: comp}
				}
			}
		}
		dummy := &c11Env{}
		v0 := &chain.Validator{Actor: chain.MkActor("c11-dummy")}
		ca := build(evA, recvA, compA, saleA, tokA, heightA, batchA)(dummy, v0).(skywaytypes.EthereumClaim)
		cb := build(evB, recvB, compB, saleB, tokB, heightB, batchB)(dummy, v0).(skywaytypes.EthereumClaim)
		if ca.ValidateBasic() != nil || cb.ValidateBasic() != nil {
			// a claim that fails its stateless validation can never be voted for: nothing can be pooled with it
			evid.Case(t.Name(), fmt.Sprintf("rejected kind=%d %s", kind, shape), false, []string{fmt.Sprintf("rejectedStateless/type%d/%s", kind, shape)}, nil)
			return
		}
		if c11Identity(ca) != c11Identity(cb) {
			// the identity separates the two claims: nothing is pooled, nothing to compare
			evid.Case(t.Name(), fmt.Sprintf("nocollision kind=%d %s", kind, shape), false, []string{fmt.Sprintf("noCollision/type%d/%s", kind, shape)}, nil)
			return
		}
		accA, digA := c11Drive(t, salt, build(evA, recvA, compA, saleA, tokA, heightA, batchA))
		accB, digB := c11Drive(t, salt, build(evB, recvB, compB, saleB, tokB, heightB, batchB))
		if accA != accB {
			t.Fatalf("claims with the same tally identity differ in acceptance: %d vs %d votes accepted\n A=%v\n B=%v", accA, accB, ca, cb)
		}
		if d := project.Diff(digA, digB); len(d) > 0 {
			t.Fatalf("claims with the same tally identity have different effects when applied\n A=%v\n B=%v\n state differences:%s", ca, cb, project.Short(d, 8))
		}
		differ := fmt.Sprint(ca) != fmt.Sprint(cb)
		evid.Case(t.Name(), fmt.Sprintf("kind=%d %s A=%v B=%v", kind, shape, ca, cb), differ, []string{fmt.Sprintf("type%d/%s", kind, shape)}, func() any {
			return map[string]any{"A": fmt.Sprint(ca), "B": fmt.Sprint(cb), "votesAccepted": accA}
		})
	})
}
