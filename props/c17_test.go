package props

// C17 — jobs are immutable; each successful run enqueues exactly one contract call on the job's chain carrying the
// stored (or, iff modifiable, the caller-supplied) payload followed by the 32-byte left-padded caller identity.

import (
	"bytes"
	sdkmath "cosmossdk.io/math"
	"cosmossdk.io/x/feegrant"
	"encoding/hex"
	"encoding/json"
	"fmt"
	stakingtypes "github.com/cosmos/cosmos-sdk/x/staking/types"
	"sort"
	"strings"
	"testing"

	sdk "github.com/cosmos/cosmos-sdk/types"
	"github.com/ethereum/go-ethereum/common"
	"pgregory.net/rapid"

	evmtypes "github.com/palomachain/paloma/v2/x/evm/types"
	schedbindings "github.com/palomachain/paloma/v2/x/scheduler/bindings"
	schedbindingstypes "github.com/palomachain/paloma/v2/x/scheduler/bindings/types"
	schedkeeper "github.com/palomachain/paloma/v2/x/scheduler/keeper"
	schedtypes "github.com/palomachain/paloma/v2/x/scheduler/types"

	"verif/harness/chain"
	"verif/harness/evid"
)

type c17Job struct {
	stored     *schedtypes.Job
	addr       string
	payloadHex string
	modifiable bool
	mev        bool
	chainRef   string
}

func c17LeftPad32(b []byte) []byte {
	out := make([]byte, 32)
	copy(out[32-len(b):], b)
	return out
}

func TestC17_JobsImmutableAndRunsCarryCaller(t *testing.T) {
	evid.Check(t, 120, 600, func(t *rapid.T) {
		salt := fmt.Sprintf("c17-%d", rapid.IntRange(0, 1<<30).Draw(t, "salt"))
		chains := []chain.EvmChain{{RefID: "eth-main", ChainID: 1}, {RefID: "bnb-main", ChainID: 56}}
		// on bnb-main sometimes no snapshot is recorded as published: the pre-execution hook (just-in-time validator-set
		// update) fails there, and the request has to schedule the call all the same
		unpublished := map[string]bool{"bnb-main": rapid.IntRange(0, 2).Draw(t, "bnbWithoutPublishedSnapshot") == 0}
		c, err := chain.New(chain.Options{Salt: salt, Stakes: []int64{100_000_000, 100_000_000, 100_000_000}, Users: []string{"u0", "u1", "g0"}, EvmChains: chains, UnpublishedChains: unpublished})
		if err != nil {
			t.Fatalf("boot: %v", err)
		}
		defer c.Close()
		if err := c.Ready(); err != nil {
			t.Fatalf("ready: %v", err)
		}
		users := []chain.Actor{c.Users["u0"], c.Users["u1"]}
		// g0 holds a fee grant from u0 and may therefore sign requests in u0's name (delegated execution: the caller
		// identity is the creator u0, not the key that signed)
		g0 := c.Users["g0"]
		grant, _ := feegrant.NewMsgGrantAllowance(&feegrant.BasicAllowance{}, users[0].Addr, g0.Addr)
		if res, err := c.Block(c.MustSign(users[0], grant)); err != nil || res.TxResults[0].Code != 0 {
			t.Fatalf("grant: %v %v", err, res)
		}
		contracts := []sdk.AccAddress{bytes.Repeat([]byte{0xc7}, 32), append(bytes.Repeat([]byte{0x00}, 12), bytes.Repeat([]byte{0x5a}, 20)...)}
		jobs := map[string]*c17Job{}
		var log []string
		lastID := map[string]uint64{}
		pendingCalls := map[string]map[uint64]bool{}
		snapshotsChanged := 0
		okRuns, failRuns := 0, 0
		delegatedRuns := 0
		claimedOther := false
		modWithPayload, fixedWithPayload, failBetween := false, false, false
		lastWasFail := false

		newLogicCalls := func(ref string) ([]*evmtypes.SubmitLogicCall, int) {
			q := chain.TurnstoneQueue(ref)
			ms, err := c.App.ConsensusKeeper.GetMessagesFromQueue(c.ReadCtx(), q, 0)
			if err != nil {
				t.Fatalf("queue: %v", err)
			}
			var calls []*evmtypes.SubmitLogicCall
			valsets := 0
			maxID := lastID[ref]
			for _, m := range ms {
				if m.GetId() <= lastID[ref] {
					continue
				}
				if m.GetId() > maxID {
					maxID = m.GetId()
				}
				cm, err := m.ConsensusMsg(c.App.AppCodec())
				if err != nil {
					t.Fatalf("unpack: %v", err)
				}
				em := cm.(*evmtypes.Message)
				switch a := em.Action.(type) {
				case *evmtypes.Message_SubmitLogicCall:
					if em.ChainReferenceID != ref {
						t.Fatalf("logic call for chain %s found in the queue of %s", em.ChainReferenceID, ref)
					}
					calls = append(calls, a.SubmitLogicCall)
				case *evmtypes.Message_UpdateValset:
					valsets++
				}
			}
			lastID[ref] = maxID
			// contract calls enqueued by earlier requests stay in the queue (nothing in these histories delivers, attests or
			// prunes them; a new validator-set update may supersede older validator-set updates only)
			present := map[uint64]bool{}
			for _, m := range ms {
				present[m.GetId()] = true
			}
			for id := range pendingCalls[ref] {
				if !present[id] {
					t.Fatalf("contract call %d, enqueued on %s by an earlier successful request, has disappeared from the queue\nhistory: %v", id, ref, log)
				}
			}
			for _, m := range ms {
				if cm, err := m.ConsensusMsg(c.App.AppCodec()); err == nil {
					if _, ok := cm.(*evmtypes.Message).Action.(*evmtypes.Message_SubmitLogicCall); ok {
						if pendingCalls[ref] == nil {
							pendingCalls[ref] = map[uint64]bool{}
						}
						pendingCalls[ref][m.GetId()] = true
					}
				}
			}
			return calls, valsets
		}
		for _, ch := range chains {
			newLogicCalls(ch.RefID)
		}
		checkJobs := func() {
			ids := make([]string, 0, len(jobs))
			for id := range jobs {
				ids = append(ids, id)
			}
			sort.Strings(ids)
			for _, id := range ids {
				got, err := c.App.SchedulerKeeper.GetJob(c.ReadCtx(), id)
				if err != nil || got == nil {
					t.Fatalf("job %q disappeared: %v", id, err)
				}
				a, _ := got.Marshal()
				b, _ := jobs[id].stored.Marshal()
				if !bytes.Equal(a, b) {
					t.Fatalf("job %q changed after creation:\n was %v\n now %v", id, jobs[id].stored, got)
				}
			}
		}
		// judge an execution request
		judgeRun := func(t *rapid.T, id string, caller []byte, supplied *string, ok bool, desc string) {
			j := jobs[id]
			got := map[string][]*evmtypes.SubmitLogicCall{}
			for _, ch := range chains {
				calls, vs := newLogicCalls(ch.RefID)
				got[ch.RefID] = calls
				if vs > 1 {
					t.Fatalf("%s: %d validator-set updates enqueued by one request", desc, vs)
				}
			}
			total := len(got["eth-main"]) + len(got["bnb-main"])
			if !ok {
				if total != 0 {
					t.Fatalf("%s failed but enqueued %d contract call(s)", desc, total)
				}
				failRuns++
				lastWasFail = true
				return
			}
			if j == nil {
				t.Fatalf("%s succeeded for a job that does not exist", desc)
			}
			if total != 1 || len(got[j.chainRef]) != 1 {
				t.Fatalf("%s succeeded and enqueued %d contract calls (%d on the job's chain %s)", desc, total, len(got[j.chainRef]), j.chainRef)
			}
			call := got[j.chainRef][0]
			if !strings.EqualFold(common.HexToAddress(call.HexContractAddress).Hex(), common.HexToAddress(j.addr).Hex()) {
				t.Fatalf("%s: call targets %s, job contract is %s", desc, call.HexContractAddress, j.addr)
			}
			wantHex := j.payloadHex
			if supplied != nil {
				if !j.modifiable {
					t.Fatalf("%s succeeded with a caller payload although the job is not payload-modifiable", desc)
				}
				wantHex = *supplied
			}
			want := append(common.FromHex(wantHex), c17LeftPad32(caller)...)
			if !bytes.Equal(call.Payload, want) {
				t.Fatalf("%s: enqueued payload %x, expected stored/caller payload followed by the padded caller %x", desc, call.Payload, want)
			}
			okRuns++
			if lastWasFail && okRuns > 1 {
				failBetween = true
			}
			lastWasFail = false
			if supplied != nil && j.modifiable {
				modWithPayload = true
			}
		}

		ids := []string{"job-a", "job-b", "job.c", "j_d", "Bad", "has space", "x-paloma-x", strings.Repeat("k", 33), ""}
		addrs := []string{"0x00000000000000000000000000000000000000aa", "0xAbCdEf0000000000000000000000000000000001"}
		payloads := []string{"0xdeadbeef", "0x", "0x00", "0x" + strings.Repeat("ab", 40)}
		messenger := schedbindings.NewMessenger(c.App.SchedulerKeeper, schedkeeper.NewMsgServerImpl(c.App.SchedulerKeeper))

		pickID := func(t *rapid.T) string {
			have := make([]string, 0, len(jobs))
			for id := range jobs {
				have = append(have, id)
			}
			sort.Strings(have)
			if len(have) > 0 && rapid.IntRange(0, 3).Draw(t, "existingJob?") > 0 {
				return rapid.SampledFrom(have).Draw(t, "jobID")
			}
			return rapid.SampledFrom(ids[:5]).Draw(t, "id")
		}
		create := func(t *rapid.T) {
			u := rapid.SampledFrom(users).Draw(t, "user")
			id := rapid.SampledFrom(ids).Draw(t, "id")
			ref := rapid.SampledFrom([]string{"eth-main", "eth-main", "bnb-main", "nochain"}).Draw(t, "chain")
			addr := rapid.SampledFrom(addrs).Draw(t, "addr")
			ph := rapid.SampledFrom(payloads).Draw(t, "payload")
			mod := rapid.Bool().Draw(t, "modifiable")
			mev := rapid.IntRange(0, 4).Draw(t, "mev") == 0
			def, _ := json.Marshal(evmtypes.JobDefinition{ABI: "[]", Address: addr})
			pl, _ := json.Marshal(evmtypes.JobPayload{HexPayload: ph})
			job := &schedtypes.Job{ID: id, Routing: schedtypes.Routing{ChainType: "evm", ChainReferenceID: ref}, Definition: def, Payload: pl, IsPayloadModifiable: mod, EnforceMEVRelay: mev}
			res, err := c.Block(c.MustSign(u, &schedtypes.MsgCreateJob{Metadata: chain.MD(u), Job: job}))
			if err != nil {
				t.Fatalf("block: %v", err)
			}
			ok := res.TxResults[0].Code == 0
			log = append(log, fmt.Sprintf("create(%s,%q,%s,mod=%v,mev=%v)=%v", u.Name, id, ref, mod, mev, ok))
			if ok {
				if _, dup := jobs[id]; dup {
					t.Fatalf("job id %q created twice", id)
				}
				stored, err := c.App.SchedulerKeeper.GetJob(c.ReadCtx(), id)
				if err != nil {
					t.Fatalf("created job not stored: %v", err)
				}
				if !stored.Owner.Equals(u.Addr) || stored.Routing.ChainReferenceID != ref || !bytes.Equal(stored.Definition, def) || !bytes.Equal(stored.Payload, pl) || stored.IsPayloadModifiable != mod || stored.EnforceMEVRelay != mev {
					t.Fatalf("stored job differs from the request: %v", stored)
				}
				jobs[id] = &c17Job{stored: stored, addr: addr, payloadHex: ph, modifiable: mod, mev: mev, chainRef: ref}
			}
			for _, ch := range chains {
				if calls, _ := newLogicCalls(ch.RefID); len(calls) != 0 {
					t.Fatalf("job creation enqueued a contract call")
				}
			}
			checkJobs()
		}
		t.Repeat(map[string]func(*rapid.T){
			"create":  create,
			"create2": create,
			"executeByAccount": func(t *rapid.T) {
				u := rapid.SampledFrom(users).Draw(t, "user")
				id := pickID(t)
				var supplied *string
				var plBytes []byte
				switch rapid.IntRange(0, 3).Draw(t, "payloadKind") {
				case 1:
					s := rapid.SampledFrom([]string{"0xfeedface", "0x01"}).Draw(t, "callerPayload")
					supplied = &s
					plBytes, _ = json.Marshal(evmtypes.JobPayload{HexPayload: s})
				case 2:
					plBytes = []byte("not json")
					s := "garbage"
					supplied = &s
				}
				if supplied != nil && jobs[id] != nil && !jobs[id].modifiable {
					fixedWithPayload = true
				}
				res, err := c.Block(c.MustSign(u, &schedtypes.MsgExecuteJob{Metadata: chain.MD(u), JobID: id, Payload: plBytes}))
				if err != nil {
					t.Fatalf("block: %v", err)
				}
				ok := res.TxResults[0].Code == 0
				desc := fmt.Sprintf("execute(%s,%q,payload=%v)", u.Name, id, supplied != nil)
				log = append(log, fmt.Sprintf("%s=%v", desc, ok))
				if ok && supplied != nil && *supplied == "garbage" {
					t.Fatalf("%s succeeded with an undecodable payload", desc)
				}
				judgeRun(t, id, u.Addr, supplied, ok, desc)
				checkJobs()
			},
			// the validator set changes (a delegation of more than 1 %) and a new snapshot is built: the next execution on a
			// chain with a published snapshot brings a just-in-time validator-set update with it
			"newSnapshot": func(t *rapid.T) {
				if snapshotsChanged >= 2 {
					t.Skip("enough")
				}
				v := c.Vals[rapid.IntRange(0, len(c.Vals)-1).Draw(t, "val")]
				res, err := c.Block(c.MustSign(users[1], stakingtypes.NewMsgDelegate(users[1].Addr.String(), v.Val().String(), sdk.NewCoin(chain.BondDenom, sdkmath.NewInt(30_000_000)))))
				if err != nil || res.TxResults[0].Code != 0 {
					t.Fatalf("delegate: %v", err)
				}
				if _, err := c.App.ValsetKeeper.TriggerSnapshotBuild(c.Ctx()); err != nil {
					t.Fatalf("snapshot: %v", err)
				}
				if _, err := c.Block(); err != nil {
					t.Fatalf("block: %v", err)
				}
				snapshotsChanged++
				for _, ch := range chains {
					newLogicCalls(ch.RefID)
				}
				log = append(log, fmt.Sprintf("newSnapshot(v%d)", v.Index))
			},
			"executeByGrantee": func(t *rapid.T) {
				id := pickID(t)
				res, err := c.Block(c.MustSign(g0, &schedtypes.MsgExecuteJob{Metadata: chain.MDAs(users[0].Addr, g0), JobID: id}))
				if err != nil {
					t.Fatalf("block: %v", err)
				}
				ok := res.TxResults[0].Code == 0
				desc := fmt.Sprintf("execute(u0 signed by its grantee,%q)", id)
				log = append(log, fmt.Sprintf("%s=%v", desc, ok))
				if ok {
					delegatedRuns++
				}
				judgeRun(t, id, users[0].Addr, nil, ok, desc)
				checkJobs()
			},
			"executeByContract": func(t *rapid.T) {
				ca := rapid.SampledFrom(contracts).Draw(t, "contract")
				id := pickID(t)
				raw := rapid.SampledFrom([][]byte{{0xfe, 0xed}, {0x01}, {}}).Draw(t, "payload")
				cctx, write := c.Ctx().CacheContext()
				// the binding message has a free-text "sender" field the contract fills as it likes: the identity that
				// requested the run is the calling contract whatever it claims there
				claimed := rapid.SampledFrom([]string{"", "", ca.String(), users[0].Addr.String(), users[1].Addr.String(), contracts[0].String(), contracts[len(contracts)-1].String()}).Draw(t, "claimedSender")
				_, _, _, err := messenger.DispatchMsg(cctx, ca, "", schedbindingstypes.Message{ExecuteJob: &schedbindingstypes.ExecuteJob{JobID: id, Sender: claimed, Payload: raw}})
				ok := err == nil
				if ok {
					write()
				}
				if _, berr := c.Block(); berr != nil {
					t.Fatalf("block: %v", berr)
				}
				s := "0x" + hex.EncodeToString(raw)
				desc := fmt.Sprintf("contractExecute(%x..,%q,%x,claims=%.12s)", ca[:2], id, raw, claimed)
				if claimed != "" && claimed != ca.String() {
					claimedOther = true
				}
				log = append(log, fmt.Sprintf("%s=%v", desc, ok))
				if jobs[id] != nil && !jobs[id].modifiable {
					fixedWithPayload = true
				}
				judgeRun(t, id, ca, &s, ok, desc)
				checkJobs()
			},
		})
		nt := okRuns >= 1 && ((modWithPayload && fixedWithPayload) || failBetween)
		labels := []string{fmt.Sprintf("okRuns=%d", min(okRuns, 6)), fmt.Sprintf("failRuns=%d", min(failRuns, 6))}
		if modWithPayload {
			labels = append(labels, "modifiableWithCallerPayload")
		}
		if fixedWithPayload {
			labels = append(labels, "fixedWithCallerPayload")
		}
		if failBetween {
			labels = append(labels, "failureBetweenSuccesses")
		}
		if delegatedRuns > 0 {
			labels = append(labels, "delegatedRun")
		}
		if claimedOther {
			labels = append(labels, "contractClaimedAnotherSender")
		}
		if snapshotsChanged > 0 {
			labels = append(labels, "validatorSetChanged")
		}
		if unpublished["bnb-main"] {
			labels = append(labels, "bnbWithoutPublishedSnapshot")
			log = append([]string{"[bnb-main has no published snapshot]"}, log...)
		}
		evid.Case(t.Name(), strings.Join(log, " "), nt, labels, func() any { return log })
	})
}
