package props

// C03 — only the principal (or governance) changes state held in its name.
// Non-interference differential: a transaction authorised only by attacker A that names victim B (validator,
// user or the governance authority) in a principal field must leave every store entry that mentions B, and the
// governance-controlled settings, exactly as they were.  Searched per message type x principal-field
// assignment x route (plain, multi-message, authz MsgExec depth 1-2, signer = fee-grantee of A).

import (
	"encoding/hex"
	"encoding/json"
	"fmt"
	"sort"
	"strings"
	"testing"
	"time"

	sdkmath "cosmossdk.io/math"
	"cosmossdk.io/x/feegrant"
	codectypes "github.com/cosmos/cosmos-sdk/codec/types"
	sdk "github.com/cosmos/cosmos-sdk/types"
	"github.com/cosmos/cosmos-sdk/x/authz"
	banktypes "github.com/cosmos/cosmos-sdk/x/bank/types"
	"pgregory.net/rapid"

	consensustypes "github.com/palomachain/paloma/v2/x/consensus/types"
	evmtypes "github.com/palomachain/paloma/v2/x/evm/types"
	palomatypes "github.com/palomachain/paloma/v2/x/paloma/types"
	schedtypes "github.com/palomachain/paloma/v2/x/scheduler/types"
	skywaytypes "github.com/palomachain/paloma/v2/x/skyway/types"
	tftypes "github.com/palomachain/paloma/v2/x/tokenfactory/types"
	treasurytypes "github.com/palomachain/paloma/v2/x/treasury/types"
	vtypes "github.com/palomachain/paloma/v2/x/valset/types"

	"verif/harness/chain"
	"verif/harness/evid"
	"verif/harness/project"
)

const c03Chain = "eth-main"
const c03ERC20 = "0x00000000000000000000000000000000000000E1"

type c03Env struct {
	c        *chain.Chain
	attacker chain.Actor // plain funded account
	grantee  chain.Actor // holds a fee grant from the attacker
	pigeon   chain.Actor // holds a fee grant from the victim validator (legitimate relayer topology)
	vb       *chain.Validator
	ub       chain.Actor
	tok      chain.Token
	jobID    string
	queueMsg uint64 // id of a queued SubmitLogicCall
	batch    uint64 // nonce of an open batch (0 if none)
	transfer uint64 // id of a pending (unbatched) transfer of ub
	contract uint64 // id of ub's uploaded user contract
	licensee chain.Actor
	client   chain.Actor // a registered (activated) light-node client holding a fee grant from the configured fee granter
	handed   string      // a factory denom created by the attacker whose admin role was handed to the user victim
}

// who the victim of a template is
const (
	vicValidator = "validator"
	vicUser      = "user"
	vicGov       = "gov"
	vicLicensee  = "licensee"
	vicClient    = "client"
	vicVal2      = "validator2" // a bonded validator that has not confirmed the open batch yet
)

type c03Template struct {
	name       string
	group      string
	victim     string
	principals []string // principal-bearing fields besides the implicit "creator"
	// build the message B could send itself; id gives the identity to put into each principal field
	build func(e *c03Env, id map[string]sdk.AccAddress, md vtypes.MsgMetadata) sdk.Msg
}

func c03ValOper(a sdk.AccAddress) string { return sdk.ValAddress(a).String() }

func c03Templates() []c03Template {
	attackerEth := chain.EthKeyFor("c03-attacker-eth")
	return []c03Template{
		// ---------------- valset
		{name: "valset.MsgKeepAlive", group: "valset", victim: vicValidator, build: func(e *c03Env, id map[string]sdk.AccAddress, md vtypes.MsgMetadata) sdk.Msg {
			return &vtypes.MsgKeepAlive{Metadata: md, PigeonVersion: "v9.9.9"}
		}},
		{name: "valset.MsgAddExternalChainInfoForValidator", group: "valset", victim: vicValidator, build: func(e *c03Env, id map[string]sdk.AccAddress, md vtypes.MsgMetadata) sdk.Msg {
			ea := chain.EthAddr(attackerEth)
			return &vtypes.MsgAddExternalChainInfoForValidator{Metadata: md, ChainInfos: []*vtypes.ExternalChainInfo{{ChainType: "evm", ChainReferenceID: c03Chain, Address: ea.Hex(), Pubkey: ea.Bytes()}}}
		}},
		// ---------------- treasury
		{name: "treasury.MsgUpsertRelayerFee", group: "treasury", victim: vicValidator, principals: []string{"val_address"}, build: func(e *c03Env, id map[string]sdk.AccAddress, md vtypes.MsgMetadata) sdk.Msg {
			return &treasurytypes.MsgUpsertRelayerFee{Metadata: md, FeeSetting: &treasurytypes.RelayerFeeSetting{ValAddress: c03ValOper(id["val_address"]),
				Fees: []treasurytypes.RelayerFeeSetting_FeeSetting{{ChainReferenceId: c03Chain, Multiplicator: sdkmath.LegacyMustNewDecFromStr("7.5")}}}}
		}},
		// ---------------- consensus
		{name: "consensus.MsgAddMessagesSignatures", group: "consensus", victim: vicValidator, build: func(e *c03Env, id map[string]sdk.AccAddress, md vtypes.MsgMetadata) sdk.Msg {
			q := chain.TurnstoneQueue(c03Chain)
			var sig []byte
			if m, err := e.c.App.ConsensusKeeper.GetMessagesFromQueue(e.c.ReadCtx(), q, 0); err == nil {
				for _, qm := range m {
					if qm.GetId() == e.queueMsg {
						if bz, err := qm.GetBytesToSign(e.c.App.AppCodec()); err == nil {
							sig = chain.EthSign(attackerEth, bz)
						}
					}
				}
			}
			return &consensustypes.MsgAddMessagesSignatures{Metadata: md, SignedMessages: []*consensustypes.ConsensusMessageSignature{{Id: e.queueMsg, QueueTypeName: q, Signature: sig, SignedByAddress: chain.EthAddr(attackerEth).Hex()}}}
		}},
		{name: "consensus.MsgAddMessageGasEstimates", group: "consensus", victim: vicValidator, build: func(e *c03Env, id map[string]sdk.AccAddress, md vtypes.MsgMetadata) sdk.Msg {
			return &consensustypes.MsgAddMessageGasEstimates{Metadata: md, Estimates: []*consensustypes.MsgAddMessageGasEstimates_GasEstimate{{MsgId: e.queueMsg, QueueTypeName: chain.TurnstoneQueue(c03Chain), Value: 123456, EstimatedByAddress: chain.EthAddr(attackerEth).Hex()}}}
		}},
		{name: "consensus.MsgAddEvidence", group: "consensus", victim: vicValidator, build: func(e *c03Env, id map[string]sdk.AccAddress, md vtypes.MsgMetadata) sdk.Msg {
			proof, _ := codectypes.NewAnyWithValue(&evmtypes.SmartContractExecutionErrorProof{ErrorMessage: "forged"})
			return &consensustypes.MsgAddEvidence{Metadata: md, Proof: proof, MessageID: e.queueMsg, QueueTypeName: chain.TurnstoneQueue(c03Chain)}
		}},
		{name: "consensus.MsgSetPublicAccessData", group: "consensus", victim: vicValidator, build: func(e *c03Env, id map[string]sdk.AccAddress, md vtypes.MsgMetadata) sdk.Msg {
			return &consensustypes.MsgSetPublicAccessData{Metadata: md, MessageID: e.queueMsg, QueueTypeName: chain.TurnstoneQueue(c03Chain), Data: []byte{0xde, 0xad}, ValsetID: 1}
		}},
		{name: "consensus.MsgSetErrorData", group: "consensus", victim: vicValidator, build: func(e *c03Env, id map[string]sdk.AccAddress, md vtypes.MsgMetadata) sdk.Msg {
			return &consensustypes.MsgSetErrorData{Metadata: md, MessageID: e.queueMsg, QueueTypeName: chain.TurnstoneQueue(c03Chain), Data: []byte("boom")}
		}},
		// ---------------- evm
		{name: "evm.MsgUploadUserSmartContractRequest", group: "evm", victim: vicUser, build: func(e *c03Env, id map[string]sdk.AccAddress, md vtypes.MsgMetadata) sdk.Msg {
			return &evmtypes.MsgUploadUserSmartContractRequest{Metadata: md, Title: "forged", AbiJson: "[]", Bytecode: "0x6001", ConstructorInput: "0x"}
		}},
		{name: "evm.MsgRemoveUserSmartContractRequest", group: "evm", victim: vicUser, build: func(e *c03Env, id map[string]sdk.AccAddress, md vtypes.MsgMetadata) sdk.Msg {
			return &evmtypes.MsgRemoveUserSmartContractRequest{Metadata: md, Id: e.contract}
		}},
		{name: "evm.MsgDeployUserSmartContractRequest", group: "evm", victim: vicUser, build: func(e *c03Env, id map[string]sdk.AccAddress, md vtypes.MsgMetadata) sdk.Msg {
			return &evmtypes.MsgDeployUserSmartContractRequest{Metadata: md, Id: e.contract, TargetChain: c03Chain}
		}},
		{name: "evm.MsgDeployNewSmartContractProposalV2", group: "evm", victim: vicGov, principals: []string{"authority"}, build: func(e *c03Env, id map[string]sdk.AccAddress, md vtypes.MsgMetadata) sdk.Msg {
			return &evmtypes.MsgDeployNewSmartContractProposalV2{Metadata: md, Authority: id["authority"].String(), AbiJSON: chain.CompassABI, BytecodeHex: "0x6002"}
		}},
		{name: "evm.MsgProposeNewReferenceBlockAttestation", group: "evm", victim: vicGov, principals: []string{"authority"}, build: func(e *c03Env, id map[string]sdk.AccAddress, md vtypes.MsgMetadata) sdk.Msg {
			return &evmtypes.MsgProposeNewReferenceBlockAttestation{Metadata: md, Authority: id["authority"].String(), ChainReferenceId: c03Chain, BlockHeight: 999999, BlockHash: "0x" + strings.Repeat("ab", 32)}
		}},
		// ---------------- paloma
		{name: "paloma.MsgRegisterLightNodeClient", group: "paloma", victim: vicLicensee, build: func(e *c03Env, id map[string]sdk.AccAddress, md vtypes.MsgMetadata) sdk.Msg {
			return &palomatypes.MsgRegisterLightNodeClient{Metadata: md}
		}},
		{name: "paloma.MsgAddLightNodeClientLicense", group: "paloma", victim: vicUser, build: func(e *c03Env, id map[string]sdk.AccAddress, md vtypes.MsgMetadata) sdk.Msg {
			return &palomatypes.MsgAddLightNodeClientLicense{Metadata: md, ClientAddress: chain.MkActor("c03-fresh-client").Addr.String(), Amount: sdk.NewCoin(chain.BondDenom, sdkmath.NewInt(5_000_000)), VestingMonths: 12}
		}},
		{name: "paloma.MsgAuthLightNodeClient", group: "paloma", victim: vicLicensee, build: func(e *c03Env, id map[string]sdk.AccAddress, md vtypes.MsgMetadata) sdk.Msg {
			return &palomatypes.MsgAuthLightNodeClient{Metadata: md}
		}},
		{name: "paloma.MsgUpdateParams", group: "paloma", victim: vicGov, principals: []string{"authority"}, build: func(e *c03Env, id map[string]sdk.AccAddress, md vtypes.MsgMetadata) sdk.Msg {
			return &palomatypes.MsgUpdateParams{Metadata: md, Authority: id["authority"].String(), Params: palomatypes.Params{GasExemptAddresses: []string{e.attacker.Addr.String()}}}
		}},
		{name: "paloma.MsgAddStatusUpdate", group: "paloma", victim: vicValidator, build: func(e *c03Env, id map[string]sdk.AccAddress, md vtypes.MsgMetadata) sdk.Msg {
			return &palomatypes.MsgAddStatusUpdate{Metadata: md, Status: "forged", Level: palomatypes.MsgAddStatusUpdate_LEVEL_INFO}
		}},
		// ---------------- scheduler
		{name: "scheduler.MsgCreateJob", group: "scheduler", victim: vicUser, build: func(e *c03Env, id map[string]sdk.AccAddress, md vtypes.MsgMetadata) sdk.Msg {
			def, _ := json.Marshal(evmtypes.JobDefinition{ABI: "[]", Address: "0x00000000000000000000000000000000000000aa"})
			pl, _ := json.Marshal(evmtypes.JobPayload{HexPayload: "0xdeadbeef"})
			return &schedtypes.MsgCreateJob{Metadata: md, Job: &schedtypes.Job{ID: "forgedjob", Routing: schedtypes.Routing{ChainType: "evm", ChainReferenceID: c03Chain}, Definition: def, Payload: pl}}
		}},
		// creating a job under (a spelling of) the id of the victim's existing job must never touch that job
		{name: "scheduler.MsgCreateJob", group: "scheduler", victim: vicUser, build: func(e *c03Env, id map[string]sdk.AccAddress, md vtypes.MsgMetadata) sdk.Msg {
			def, _ := json.Marshal(evmtypes.JobDefinition{ABI: "[]", Address: "0x00000000000000000000000000000000000000ab"})
			pl, _ := json.Marshal(evmtypes.JobPayload{HexPayload: "0xfeedface"})
			return &schedtypes.MsgCreateJob{Metadata: md, Job: &schedtypes.Job{ID: e.jobID, Routing: schedtypes.Routing{ChainType: "evm", ChainReferenceID: c03Chain}, Definition: def, Payload: pl}}
		}},
		{name: "scheduler.MsgCreateJob", group: "scheduler", victim: vicUser, build: func(e *c03Env, id map[string]sdk.AccAddress, md vtypes.MsgMetadata) sdk.Msg {
			def, _ := json.Marshal(evmtypes.JobDefinition{ABI: "[]", Address: "0x00000000000000000000000000000000000000ab"})
			pl, _ := json.Marshal(evmtypes.JobPayload{HexPayload: "0xfeedface"})
			return &schedtypes.MsgCreateJob{Metadata: md, Job: &schedtypes.Job{ID: strings.ToUpper(e.jobID[:1]) + e.jobID[1:], Routing: schedtypes.Routing{ChainType: "evm", ChainReferenceID: c03Chain}, Definition: def, Payload: pl}}
		}},
		{name: "scheduler.MsgCreateJob", group: "scheduler", victim: vicUser, build: func(e *c03Env, id map[string]sdk.AccAddress, md vtypes.MsgMetadata) sdk.Msg {
			def, _ := json.Marshal(evmtypes.JobDefinition{ABI: "[]", Address: "0x00000000000000000000000000000000000000ab"})
			pl, _ := json.Marshal(evmtypes.JobPayload{HexPayload: "0xfeedface"})
			return &schedtypes.MsgCreateJob{Metadata: md, Job: &schedtypes.Job{ID: " " + e.jobID + " ", Routing: schedtypes.Routing{ChainType: "evm", ChainReferenceID: c03Chain}, Definition: def, Payload: pl}}
		}},
		{name: "scheduler.MsgExecuteJob", group: "scheduler", victim: vicUser, build: func(e *c03Env, id map[string]sdk.AccAddress, md vtypes.MsgMetadata) sdk.Msg {
			return &schedtypes.MsgExecuteJob{Metadata: md, JobID: e.jobID}
		}},
		// ---------------- tokenfactory
		{name: "tokenfactory.MsgCreateDenom", group: "tokenfactory", victim: vicUser, build: func(e *c03Env, id map[string]sdk.AccAddress, md vtypes.MsgMetadata) sdk.Msg {
			return &tftypes.MsgCreateDenom{Metadata: md, Subdenom: "forged"}
		}},
		{name: "tokenfactory.MsgMint", group: "tokenfactory", victim: vicUser, build: func(e *c03Env, id map[string]sdk.AccAddress, md vtypes.MsgMetadata) sdk.Msg {
			return &tftypes.MsgMint{Metadata: md, Amount: sdk.NewCoin(e.tok.Denom, sdkmath.NewInt(777))}
		}},
		{name: "tokenfactory.MsgBurn", group: "tokenfactory", victim: vicUser, build: func(e *c03Env, id map[string]sdk.AccAddress, md vtypes.MsgMetadata) sdk.Msg {
			return &tftypes.MsgBurn{Metadata: md, Amount: sdk.NewCoin(e.tok.Denom, sdkmath.NewInt(3))}
		}},
		{name: "tokenfactory.MsgChangeAdmin", group: "tokenfactory", victim: vicUser, build: func(e *c03Env, id map[string]sdk.AccAddress, md vtypes.MsgMetadata) sdk.Msg {
			return &tftypes.MsgChangeAdmin{Metadata: md, Denom: e.tok.Denom, NewAdmin: e.attacker.Addr.String()}
		}},
		{name: "tokenfactory.MsgSetDenomMetadata", group: "tokenfactory", victim: vicUser, build: func(e *c03Env, id map[string]sdk.AccAddress, md vtypes.MsgMetadata) sdk.Msg {
			d := e.tok.Denom
			return &tftypes.MsgSetDenomMetadata{Metadata: md, DenomMetadata: banktypes.Metadata{Base: d, Display: d, Name: "forged", Symbol: "F", DenomUnits: []*banktypes.DenomUnit{{Denom: d}}}}
		}},
		{name: "tokenfactory.MsgUpdateParams", group: "tokenfactory", victim: vicGov, principals: []string{"authority"}, build: func(e *c03Env, id map[string]sdk.AccAddress, md vtypes.MsgMetadata) sdk.Msg {
			return &tftypes.MsgUpdateParams{Metadata: md, Authority: id["authority"].String(), Params: tftypes.Params{DenomCreationFee: sdk.NewCoins(sdk.NewCoin(chain.BondDenom, sdkmath.NewInt(1)))}}
		}},
		// ---------------- skyway (user side)
		{name: "skyway.MsgSendToRemote", group: "skyway_user", victim: vicUser, build: func(e *c03Env, id map[string]sdk.AccAddress, md vtypes.MsgMetadata) sdk.Msg {
			return &skywaytypes.MsgSendToRemote{Metadata: md, EthDest: "0x00000000000000000000000000000000000000d1", Amount: sdk.NewCoin(e.tok.Denom, sdkmath.NewInt(11)), ChainReferenceId: c03Chain}
		}},
		{name: "skyway.MsgCancelSendToRemote", group: "skyway_user", victim: vicUser, build: func(e *c03Env, id map[string]sdk.AccAddress, md vtypes.MsgMetadata) sdk.Msg {
			return &skywaytypes.MsgCancelSendToRemote{Metadata: md, TransactionId: e.transfer}
		}},
		{name: "skyway.MsgSetERC20ToTokenDenom", group: "skyway_user", victim: vicUser, build: func(e *c03Env, id map[string]sdk.AccAddress, md vtypes.MsgMetadata) sdk.Msg {
			return &skywaytypes.MsgSetERC20ToTokenDenom{Metadata: md, Denom: e.tok.Denom, ChainReferenceId: c03Chain, Erc20: "0x00000000000000000000000000000000000000E7"}
		}},
		// ---------------- the same privileged operations on a denom the attacker created and then handed to the victim:
		// the denom's name carries the attacker's address, its admin (the principal it is held for) is the victim
		{name: "tokenfactory.MsgMint", group: "tokenfactory", victim: vicUser, build: func(e *c03Env, id map[string]sdk.AccAddress, md vtypes.MsgMetadata) sdk.Msg {
			return &tftypes.MsgMint{Metadata: md, Amount: sdk.NewCoin(e.handed, sdkmath.NewInt(777))}
		}},
		{name: "tokenfactory.MsgBurn", group: "tokenfactory", victim: vicUser, build: func(e *c03Env, id map[string]sdk.AccAddress, md vtypes.MsgMetadata) sdk.Msg {
			return &tftypes.MsgBurn{Metadata: md, Amount: sdk.NewCoin(e.handed, sdkmath.NewInt(3))}
		}},
		{name: "tokenfactory.MsgChangeAdmin", group: "tokenfactory", victim: vicUser, build: func(e *c03Env, id map[string]sdk.AccAddress, md vtypes.MsgMetadata) sdk.Msg {
			return &tftypes.MsgChangeAdmin{Metadata: md, Denom: e.handed, NewAdmin: e.attacker.Addr.String()}
		}},
		{name: "tokenfactory.MsgSetDenomMetadata", group: "tokenfactory", victim: vicUser, build: func(e *c03Env, id map[string]sdk.AccAddress, md vtypes.MsgMetadata) sdk.Msg {
			d := e.handed
			return &tftypes.MsgSetDenomMetadata{Metadata: md, DenomMetadata: banktypes.Metadata{Base: d, Display: d, Name: "forged", Symbol: "F", DenomUnits: []*banktypes.DenomUnit{{Denom: d}}}}
		}},
		{name: "skyway.MsgSetERC20ToTokenDenom", group: "skyway_user", victim: vicUser, build: func(e *c03Env, id map[string]sdk.AccAddress, md vtypes.MsgMetadata) sdk.Msg {
			return &skywaytypes.MsgSetERC20ToTokenDenom{Metadata: md, Denom: e.handed, ChainReferenceId: c03Chain, Erc20: "0x00000000000000000000000000000000000000E8"}
		}},
		// ---------------- skyway (validator side)
		{name: "skyway.MsgSendToPalomaClaim", group: "skyway_claims", victim: vicValidator, principals: []string{"orchestrator"}, build: func(e *c03Env, id map[string]sdk.AccAddress, md vtypes.MsgMetadata) sdk.Msg {
			n := e.nextClaimNonce(id["orchestrator"])
			return &skywaytypes.MsgSendToPalomaClaim{Metadata: md, EventNonce: n, SkywayNonce: n, EthBlockHeight: 5000 + n, TokenContract: c03ERC20, Amount: sdkmath.NewInt(1_000_000),
				EthereumSender: "0x00000000000000000000000000000000000000b1", PalomaReceiver: e.attacker.Addr.String(), Orchestrator: id["orchestrator"].String(), ChainReferenceId: c03Chain, CompassId: "compass-1"}
		}},
		{name: "skyway.MsgBatchSendToRemoteClaim", group: "skyway_claims", victim: vicValidator, principals: []string{"orchestrator"}, build: func(e *c03Env, id map[string]sdk.AccAddress, md vtypes.MsgMetadata) sdk.Msg {
			n := e.nextClaimNonce(id["orchestrator"])
			bn := e.batch
			if bn == 0 {
				bn = 1
			}
			return &skywaytypes.MsgBatchSendToRemoteClaim{Metadata: md, EventNonce: n, SkywayNonce: n, EthBlockHeight: 5000 + n, BatchNonce: bn, TokenContract: c03ERC20,
				Orchestrator: id["orchestrator"].String(), ChainReferenceId: c03Chain, CompassId: "compass-1"}
		}},
		{name: "skyway.MsgLightNodeSaleClaim", group: "skyway_claims", victim: vicValidator, principals: []string{"orchestrator"}, build: func(e *c03Env, id map[string]sdk.AccAddress, md vtypes.MsgMetadata) sdk.Msg {
			n := e.nextClaimNonce(id["orchestrator"])
			return &skywaytypes.MsgLightNodeSaleClaim{Metadata: md, EventNonce: n, SkywayNonce: n, EthBlockHeight: 5000 + n, Orchestrator: id["orchestrator"].String(), ChainReferenceId: c03Chain,
				ClientAddress: chain.MkActor("c03-sale-client").Addr.String(), Amount: sdkmath.NewInt(5), SmartContractAddress: "0x00000000000000000000000000000000000000f7", CompassId: "compass-1"}
		}},
		{name: "skyway.MsgConfirmBatch", group: "skyway_claims", victim: vicValidator, principals: []string{"orchestrator"}, build: func(e *c03Env, id map[string]sdk.AccAddress, md vtypes.MsgMetadata) sdk.Msg {
			var sig []byte
			if b := e.openBatch(); b != nil {
				sig = chain.EthSign(attackerEth, b.BytesToSign)
			}
			// the attacker does not hold the victim's remote key: it signs with its own and claims the victim's (or its own) address
			return &skywaytypes.MsgConfirmBatch{Metadata: md, Nonce: e.batch, TokenContract: c03ERC20, EthSigner: chain.EthAddr(e.vb.EthKeys[c03Chain]).Hex(), Orchestrator: id["orchestrator"].String(), Signature: hex.EncodeToString(sig)}
		}},
		{name: "skyway.MsgConfirmBatch", group: "skyway_claims", victim: vicVal2, principals: []string{"orchestrator"}, build: func(e *c03Env, id map[string]sdk.AccAddress, md vtypes.MsgMetadata) sdk.Msg {
			// the attacker holds the registered remote key of ANOTHER bonded validator (an accomplice): a valid signature
			// over the exact batch, by a registered key - but not by the key of the validator named as orchestrator
			acc := e.c.Vals[0]
			var sig []byte
			if b := e.openBatch(); b != nil {
				sig = chain.EthSign(acc.EthKeys[c03Chain], b.BytesToSign)
			}
			return &skywaytypes.MsgConfirmBatch{Metadata: md, Nonce: e.batch, TokenContract: c03ERC20, EthSigner: chain.EthAddr(acc.EthKeys[c03Chain]).Hex(), Orchestrator: id["orchestrator"].String(), Signature: hex.EncodeToString(sig)}
		}},
		{name: "skyway.MsgEstimateBatchGas", group: "skyway_claims", victim: vicValidator, build: func(e *c03Env, id map[string]sdk.AccAddress, md vtypes.MsgMetadata) sdk.Msg {
			return &skywaytypes.MsgEstimateBatchGas{Metadata: md, Nonce: e.batch, TokenContract: c03ERC20, EthSigner: chain.EthAddr(e.vb.EthKeys[c03Chain]).Hex(), Estimate: 21000}
		}},
		{name: "evm.MsgRemoveSmartContractDeploymentRequest", group: "evm", victim: vicGov, build: func(e *c03Env, id map[string]sdk.AccAddress, md vtypes.MsgMetadata) sdk.Msg {
			return &evmtypes.MsgRemoveSmartContractDeploymentRequest{Metadata: md, SmartContractID: 1, ChainReferenceID: c03Chain}
		}},
		{name: "paloma.MsgSetLegacyLightNodeClients", group: "paloma", victim: vicGov, build: func(e *c03Env, id map[string]sdk.AccAddress, md vtypes.MsgMetadata) sdk.Msg {
			return &palomatypes.MsgSetLegacyLightNodeClients{Metadata: md}
		}},
		{name: "paloma.MsgSetLegacyLightNodeClients", group: "paloma", victim: vicClient, build: func(e *c03Env, id map[string]sdk.AccAddress, md vtypes.MsgMetadata) sdk.Msg {
			return &palomatypes.MsgSetLegacyLightNodeClients{Metadata: md}
		}},
		{name: "paloma.MsgAuthLightNodeClient", group: "paloma", victim: vicClient, build: func(e *c03Env, id map[string]sdk.AccAddress, md vtypes.MsgMetadata) sdk.Msg {
			return &palomatypes.MsgAuthLightNodeClient{Metadata: md}
		}},
		{name: "skyway.MsgSubmitBadSignatureEvidence", group: "skyway_claims", victim: vicValidator, principals: []string{"sender"}, build: func(e *c03Env, id map[string]sdk.AccAddress, md vtypes.MsgMetadata) sdk.Msg {
			// evidence built by somebody who does not hold the victim's remote key: a never-issued batch signed by the attacker's key
			fake := skywaytypes.OutgoingTxBatch{BatchNonce: 99, BatchTimeout: 1, TokenContract: c03ERC20, ChainReferenceId: c03Chain, Assignee: c03ValOper(e.vb.Addr), AssigneeRemoteAddress: chain.EthAddr(attackerEth).Bytes(),
				Transactions: []skywaytypes.OutgoingTransferTx{{Id: 1, Sender: e.ub.Addr.String(), DestAddress: "0x00000000000000000000000000000000000000d1", Erc20Token: skywaytypes.ERC20Token{Contract: c03ERC20, Amount: sdkmath.NewInt(1), ChainReferenceId: c03Chain}, BridgeTaxAmount: sdkmath.ZeroInt()}}}
			cp, _ := fake.GetCheckpoint("compass-1")
			subj, _ := codectypes.NewAnyWithValue(&fake)
			return &skywaytypes.MsgSubmitBadSignatureEvidence{Metadata: md, Subject: subj, Signature: hex.EncodeToString(chain.EthSign(attackerEth, cp)), Sender: id["sender"].String(), ChainReferenceId: c03Chain}
		}},
		// ---------------- skyway (governance)
		{name: "skyway.MsgUpdateParams", group: "skyway_gov", victim: vicGov, principals: []string{"authority"}, build: func(e *c03Env, id map[string]sdk.AccAddress, md vtypes.MsgMetadata) sdk.Msg {
			return &skywaytypes.MsgUpdateParams{Metadata: md, Authority: id["authority"].String(), Params: skywaytypes.Params{}}
		}},
		{name: "skyway.MsgSetERC20MappingProposal", group: "skyway_gov", victim: vicGov, principals: []string{"authority"}, build: func(e *c03Env, id map[string]sdk.AccAddress, md vtypes.MsgMetadata) sdk.Msg {
			return &skywaytypes.MsgSetERC20MappingProposal{Metadata: md, Authority: id["authority"].String(), Mappings: []skywaytypes.MsgSetERC20MappingProposal_ERC20ToDenomMapping{{ChainReferenceId: c03Chain, Erc20: "0x00000000000000000000000000000000000000E8", Denom: chain.BondDenom}}}
		}},
		{name: "skyway.MsgNonceOverrideProposal", group: "skyway_gov", victim: vicGov, build: func(e *c03Env, id map[string]sdk.AccAddress, md vtypes.MsgMetadata) sdk.Msg {
			return &skywaytypes.MsgNonceOverrideProposal{Metadata: md, ChainReferenceId: c03Chain, Nonce: 77}
		}},
		{name: "skyway.MsgReplenishLostGrainsProposal", group: "skyway_gov", victim: vicGov, build: func(e *c03Env, id map[string]sdk.AccAddress, md vtypes.MsgMetadata) sdk.Msg {
			return &skywaytypes.MsgReplenishLostGrainsProposal{Metadata: md}
		}},
	}
}

func (e *c03Env) nextClaimNonce(orch sdk.AccAddress) uint64 {
	n, err := e.c.App.SkywayKeeper.GetLastSkywayNonceByValidator(e.c.ReadCtx(), sdk.ValAddress(orch), c03Chain)
	if err != nil {
		return 1
	}
	return n + 1
}

func (e *c03Env) openBatch() *skywaytypes.InternalOutgoingTxBatch {
	bs, err := e.c.App.SkywayKeeper.GetOutgoingTxBatches(e.c.ReadCtx())
	if err != nil || len(bs) == 0 {
		return nil
	}
	return &bs[0]
}

// govDigest renders the governance-controlled settings.
func c03GovDigest(c *chain.Chain) string {
	ctx := c.ReadCtx()
	out := map[string]any{}
	out["skyway.params"] = c.App.SkywayKeeper.GetParams(ctx)
	taxes, _ := c.App.SkywayKeeper.AllBridgeTaxes(ctx)
	out["skyway.taxes"] = taxes
	limits, _ := c.App.SkywayKeeper.AllBridgeTransferLimits(ctx)
	out["skyway.limits"] = limits
	sales, _ := c.App.SkywayKeeper.AllLightNodeSaleContracts(ctx)
	out["skyway.sales"] = sales
	maps, _ := c.App.SkywayKeeper.GetAllERC20ToDenoms(ctx)
	out["skyway.erc20"] = maps
	cis, _ := c.App.EvmKeeper.GetAllChainInfos(ctx)
	out["evm.chains"] = cis
	sc, _ := c.App.EvmKeeper.GetLastCompassContract(ctx)
	if sc != nil {
		out["evm.lastCompass"] = sc.Id
	}
	fees, _ := c.App.TreasuryKeeper.GetFees(ctx)
	out["treasury.fees"] = fees
	pr, _ := c.App.ValsetKeeper.PigeonRequirements(ctx)
	out["valset.pigeon"] = pr
	out["paloma.params"] = c.App.PalomaKeeper.GetParams(ctx)
	fu, _ := c.App.PalomaKeeper.LightNodeClientFunders(ctx)
	out["paloma.funders"] = fu
	fg, _ := c.App.PalomaKeeper.LightNodeClientFeegranter(ctx)
	out["paloma.feegranter"] = fg
	out["tokenfactory.params"] = c.App.TokenFactoryKeeper.GetParams(ctx)
	bz, _ := json.Marshal(out)
	return string(bz)
}

// c03Setup builds a chain with populated victim state.
func c03Setup(t *rapid.T, salt string) *c03Env {
	c, err := chain.New(chain.Options{Salt: salt, Stakes: []int64{100_000_000, 100_000_000, 100_000_000, 100_000_000}, InitialHeight: 44,
		Users: []string{"ub", "mallory", "gm", "pigeon", "funder", "granter"}, EvmChains: []chain.EvmChain{{RefID: c03Chain, ChainID: 1}}})
	if err != nil {
		t.Fatalf("boot: %v", err)
	}
	e := &c03Env{c: c, attacker: c.Users["mallory"], grantee: c.Users["gm"], pigeon: c.Users["pigeon"], vb: c.Vals[1], ub: c.Users["ub"], licensee: chain.MkActor(salt + "/licensee"), client: chain.MkActor(salt + "/client")}
	must := func(err error, what string) {
		if err != nil {
			c.Close()
			t.Fatalf("setup %s: %v", what, err)
		}
	}
	mustOK := func(res []bool, what string) {
		for i, ok := range res {
			if !ok {
				c.Close()
				t.Fatalf("setup %s: tx %d failed: %s", what, i, c.LastRes.TxResults[i].Log)
			}
		}
	}
	blk := func(txs ...[]byte) []bool {
		res, err := c.Block(txs...)
		must(err, "block")
		oks := make([]bool, len(txs))
		for i := range txs {
			oks[i] = res.TxResults[i].Code == 0
		}
		return oks
	}
	must(c.Ready(), "ready")                                                             // heights 44,45,46
	tok, err := c.SetupToken(e.ub, "tok", sdkmath.NewInt(1_000_000), c03Chain, c03ERC20) // 47
	must(err, "token")
	e.tok = tok
	def, _ := json.Marshal(evmtypes.JobDefinition{ABI: "[]", Address: "0x00000000000000000000000000000000000000aa"})
	pl, _ := json.Marshal(evmtypes.JobPayload{HexPayload: "0xdeadbeef"})
	e.jobID = "jobb"
	grantV, _ := feegrant.NewMsgGrantAllowance(&feegrant.BasicAllowance{}, e.vb.Addr, e.pigeon.Addr)
	grantA, _ := feegrant.NewMsgGrantAllowance(&feegrant.BasicAllowance{}, e.attacker.Addr, e.grantee.Addr)
	mustOK(blk( // 48
		c.MustSign(e.ub,
			&skywaytypes.MsgSendToRemote{Metadata: chain.MD(e.ub), EthDest: "0x00000000000000000000000000000000000000d1", Amount: sdk.NewCoin(tok.Denom, sdkmath.NewInt(100)), ChainReferenceId: c03Chain},
			&schedtypes.MsgCreateJob{Metadata: chain.MD(e.ub), Job: &schedtypes.Job{ID: e.jobID, Routing: schedtypes.Routing{ChainType: "evm", ChainReferenceID: c03Chain}, Definition: def, Payload: pl}},
			&evmtypes.MsgUploadUserSmartContractRequest{Metadata: chain.MD(e.ub), Title: "mine", AbiJson: "[]", Bytecode: "0x6001", ConstructorInput: "0x"},
		),
		c.MustSign(e.vb.Actor, grantV),
		c.MustSign(e.attacker, grantA, &tftypes.MsgCreateDenom{Metadata: chain.MD(e.attacker), Subdenom: "handed"}),
		c.MustSign(c.Users["funder"], &palomatypes.MsgAddLightNodeClientLicense{Metadata: chain.MD(c.Users["funder"]), ClientAddress: e.licensee.Addr.String(), Amount: sdk.NewCoin(chain.BondDenom, sdkmath.NewInt(9_000_000)), VestingMonths: 6},
			&palomatypes.MsgAddLightNodeClientLicense{Metadata: chain.MD(c.Users["funder"]), ClientAddress: e.client.Addr.String(), Amount: sdk.NewCoin(chain.BondDenom, sdkmath.NewInt(7_000_000)), VestingMonths: 6}),
	), "victim state 1")
	// governance-configured fee granter (fixture); it grants the client an allowance, the client redeems its licence
	must(c.App.PalomaKeeper.SetLightNodeClientFeegranter(c.Ctx(), c.Users["granter"].Addr), "fee granter")
	grantC, _ := feegrant.NewMsgGrantAllowance(&feegrant.BasicAllowance{}, c.Users["granter"].Addr, e.client.Addr)
	mustOK(blk( // 49
		c.MustSign(e.ub, &schedtypes.MsgExecuteJob{Metadata: chain.MD(e.ub), JobID: e.jobID}),
		c.MustSign(e.vb.Actor, &skywaytypes.MsgSendToPalomaClaim{Metadata: chain.MD(e.vb.Actor), EventNonce: 1, SkywayNonce: 1, EthBlockHeight: 4000, TokenContract: c03ERC20, Amount: sdkmath.NewInt(5),
			EthereumSender: "0x00000000000000000000000000000000000000b1", PalomaReceiver: e.ub.Addr.String(), Orchestrator: e.vb.Addr.String(), ChainReferenceId: c03Chain, CompassId: "compass-1"}),
		c.MustSign(e.attacker, &tftypes.MsgChangeAdmin{Metadata: chain.MD(e.attacker), Denom: "factory/" + e.attacker.Addr.String() + "/handed", NewAdmin: e.ub.Addr.String()}),
		c.MustSign(c.Users["granter"], grantC),
		c.MustSign(e.client, &palomatypes.MsgRegisterLightNodeClient{Metadata: chain.MD(e.client)}),
	), "victim state 2")
	e.handed = "factory/" + e.attacker.Addr.String() + "/handed"
	if md, err := c.App.TokenFactoryKeeper.GetAuthorityMetadata(c.ReadCtx(), e.handed); err != nil || md.Admin != e.ub.Addr.String() {
		t.Fatalf("setup: denom %s not handed to the victim: %v %v", e.handed, md, err)
	}
	if cl, err := c.App.PalomaKeeper.GetLightNodeClient(c.ReadCtx(), e.client.Addr.String()); err != nil || cl == nil {
		t.Fatalf("setup: light-node client not registered: %v", err)
	}
	blk() // 50: batch is built from the first transfer
	if b := e.openBatch(); b != nil {
		e.batch = b.BatchNonce
	}
	// second transfer stays in the pool; the victim validator confirms the batch and signs the queued message
	txs := [][]byte{c.MustSign(e.ub, &skywaytypes.MsgSendToRemote{Metadata: chain.MD(e.ub), EthDest: "0x00000000000000000000000000000000000000d2", Amount: sdk.NewCoin(tok.Denom, sdkmath.NewInt(50)), ChainReferenceId: c03Chain})}
	qms, _ := c.App.ConsensusKeeper.GetMessagesFromQueue(c.ReadCtx(), chain.TurnstoneQueue(c03Chain), 0)
	for _, qm := range qms {
		cm, err := qm.ConsensusMsg(c.App.AppCodec())
		if err != nil {
			continue
		}
		if em, ok := cm.(*evmtypes.Message); ok {
			if _, ok := em.Action.(*evmtypes.Message_SubmitLogicCall); ok {
				e.queueMsg = qm.GetId()
			}
		}
	}
	if b := e.openBatch(); b != nil {
		sig := chain.EthSign(e.vb.EthKeys[c03Chain], b.BytesToSign)
		txs = append(txs, c.MustSign(e.vb.Actor, &skywaytypes.MsgConfirmBatch{Metadata: chain.MD(e.vb.Actor), Nonce: b.BatchNonce, TokenContract: c03ERC20, EthSigner: chain.EthAddr(e.vb.EthKeys[c03Chain]).Hex(), Orchestrator: e.vb.Addr.String(), Signature: hex.EncodeToString(sig)}))
	}
	blk(txs...) // 51
	ut, _ := c.App.SkywayKeeper.GetUnbatchedTransactions(c.ReadCtx())
	for _, u := range ut {
		e.transfer = u.Id
	}
	cs, _ := c.App.EvmKeeper.UserSmartContracts(c.ReadCtx(), sdk.ValAddress(e.ub.Addr).String())
	for _, sc := range cs {
		e.contract = sc.Id
	}
	blk() // 52 quiesce
	return e
}

// multiAfterOwnGrant / multiBeforeOwnGrant: the signer holds a fee grant from the attacker's own second account and puts
// a legitimate message in that account's name (covered by the grant) before / after the forged one in the same tx.
var c03Routes = []string{"plain", "multi", "authz1", "authz2", "plainByGranteeOfAttacker", "multiAfterOwnGrant", "multiBeforeOwnGrant", "authzSiblings", "multiAfterOwnMessage"}

func c03Groups() []string {
	seen := map[string]bool{}
	var gs []string
	for _, tpl := range c03Templates() {
		if !seen[tpl.group] {
			seen[tpl.group] = true
			gs = append(gs, tpl.group)
		}
	}
	sort.Strings(gs)
	return gs
}

func TestC03_NonInterference(t *testing.T) {
	all := c03Templates()
	for _, group := range c03Groups() {
		var tpls []c03Template
		for _, tpl := range all {
			if tpl.group == group {
				tpls = append(tpls, tpl)
			}
		}
		t.Run(group, func(t *testing.T) {
			evid.Check(t, 30, 150, func(t *rapid.T) { c03Case(t, tpls) })
		})
	}
}

func c03Case(t *rapid.T, tpls []c03Template) {
	salt := fmt.Sprintf("c03-%d", rapid.IntRange(0, 1<<30).Draw(t, "salt"))
	e := c03Setup(t, salt)
	c := e.c
	defer c.Close()
	// cross-check the template registry against the messages the application actually accepts
	covered := map[string]bool{}
	for _, tpl := range c03Templates() {
		covered["/palomachain.paloma."+tpl.name] = true
	}
	for _, url := range c.App.InterfaceRegistry().ListImplementations(sdk.MsgInterfaceProtoName) {
		if strings.HasPrefix(url, "/palomachain.paloma.") && !covered[url] {
			evid.Note(t.Name(), "message type without a template (not exercised): "+url)
		}
	}

	victimOf := func(kind string) sdk.AccAddress {
		switch kind {
		case vicValidator:
			return e.vb.Addr
		case vicUser:
			return e.ub.Addr
		case vicLicensee:
			return e.licensee.Addr
		case vicClient:
			return e.client.Addr
		case vicVal2:
			return e.c.Vals[2].Addr
		default:
			return chain.GovAddr()
		}
	}
	// noise: entries that change in an empty block
	noiseFor := func(pats [][]byte) map[string]bool {
		a := project.Mentions(c, project.PrincipalStores, pats)
		if _, err := c.Block(); err != nil {
			t.Fatalf("block: %v", err)
		}
		b := project.Mentions(c, project.PrincipalStores, pats)
		return project.DiffKeys(a, b)
	}
	noise := map[string]map[string]bool{}
	var log []string
	attempts := rapid.IntRange(8, 14).Draw(t, "attempts")
	accepted, authRejected, reachedHandler := 0, 0, 0
	for i := 0; i < attempts; i++ {
		tpl := rapid.SampledFrom(tpls).Draw(t, "template")
		route := rapid.SampledFrom(c03Routes).Draw(t, "route")
		B := victimOf(tpl.victim)
		A := e.attacker
		signer := A
		if route == "plainByGranteeOfAttacker" || route == "multiAfterOwnGrant" || route == "multiBeforeOwnGrant" {
			signer = e.grantee
		}
		// principal assignment: every principal field is A or B, at least one is B
		fields := append([]string{"creator"}, tpl.principals...)
		id := map[string]sdk.AccAddress{}
		anyB := false
		var asg []string
		for _, f := range fields {
			if rapid.Bool().Draw(t, "field:"+f+"=victim?") {
				id[f] = B
				anyB = true
				asg = append(asg, f+"=B")
			} else {
				id[f] = signer.Addr
				asg = append(asg, f+"=A")
			}
		}
		// Usually at least one field names the victim; in some attempts none does: the message is entirely the
		// attacker's own and refers to the victim's things, if at all, only through ids (job, transfer, contract, denom,
		// batch) or not at all (messages with a global effect) - the victim's state must not change either.
		ownMessage := !anyB && rapid.Bool().Draw(t, "ownMessage")
		if !anyB && !ownMessage {
			f := rapid.SampledFrom(fields).Draw(t, "forcedField")
			id[f] = B
			for j := range asg {
				if strings.HasPrefix(asg[j], f+"=") {
					asg[j] = f + "=B"
				}
			}
		}
		md := vtypes.MsgMetadata{Creator: id["creator"].String(), Signers: []string{signer.Addr.String()}}
		msg := tpl.build(e, id, md)
		wellFormed := true
		if vb, ok := msg.(sdk.HasValidateBasic); ok {
			wellFormed = vb.ValidateBasic() == nil
		}
		var msgs []sdk.Msg
		switch route {
		case "multi":
			msgs = []sdk.Msg{banktypes.NewMsgSend(signer.Addr, signer.Addr, sdk.NewCoins(sdk.NewCoin(chain.BondDenom, sdkmath.NewInt(1)))), msg}
		case "multiAfterOwnGrant", "multiBeforeOwnGrant":
			own := &tftypes.MsgCreateDenom{Metadata: chain.MDAs(e.attacker.Addr, signer), Subdenom: fmt.Sprintf("own%d", i)}
			if route == "multiAfterOwnGrant" {
				msgs = []sdk.Msg{own, msg}
			} else {
				msgs = []sdk.Msg{msg, own}
			}
		case "multiAfterOwnMessage":
			// the forged message follows a perfectly legitimate message of the signer itself in the same transaction
			own := &tftypes.MsgCreateDenom{Metadata: chain.MD(signer), Subdenom: fmt.Sprintf("self%d", i)}
			msgs = []sdk.Msg{own, msg}
		case "authzSiblings":
			// two MsgExec wrappers on one level: the forged message in the first, a harmless transfer in the second
			ex1 := authz.NewMsgExec(signer.Addr, []sdk.Msg{msg})
			ex2 := authz.NewMsgExec(signer.Addr, []sdk.Msg{banktypes.NewMsgSend(signer.Addr, signer.Addr, sdk.NewCoins(sdk.NewCoin(chain.BondDenom, sdkmath.NewInt(1))))})
			msgs = []sdk.Msg{&ex1, &ex2}
		case "authz1":
			ex := authz.NewMsgExec(signer.Addr, []sdk.Msg{msg})
			msgs = []sdk.Msg{&ex}
		case "authz2":
			in := authz.NewMsgExec(signer.Addr, []sdk.Msg{msg})
			ex := authz.NewMsgExec(signer.Addr, []sdk.Msg{&in})
			msgs = []sdk.Msg{&ex}
		default:
			msgs = []sdk.Msg{msg}
		}
		pats := project.Idents(B)
		if tpl.victim == vicUser {
			// everything recorded under the handed-over denom (supply, metadata, bridge mapping, ...) is held for its admin
			pats = append(pats, []byte(e.handed))
		}
		nk := B.String()
		if noise[nk] == nil {
			noise[nk] = noiseFor(pats)
		}
		before := project.Mentions(c, project.PrincipalStores, pats)
		govBefore := c03GovDigest(c)
		txbz, err := c.Sign([]chain.Actor{signer}, msgs...)
		if err != nil {
			t.Fatalf("sign %s: %v", tpl.name, err)
		}
		res, err := c.Block(txbz)
		if err != nil {
			t.Fatalf("block failed delivering forged %s: %v", tpl.name, err)
		}
		r := res.TxResults[0]
		outcome := "rejected"
		switch {
		case r.Code == 0:
			outcome = "accepted"
			accepted++
		case strings.Contains(r.Log, "no signature from granted address"):
			outcome = "authRejected"
			authRejected++
		}
		if wellFormed {
			reachedHandler++
		}
		desc := fmt.Sprintf("%s{%s} route=%s -> %s", tpl.name, strings.Join(asg, ","), route, outcome)
		log = append(log, desc)
		after := project.Mentions(c, project.PrincipalStores, pats)
		var d []string
		for _, x := range project.Diff(before, after) {
			key := x[strings.Index(x, " ")+1:]
			if !noise[nk][key] {
				d = append(d, x)
			}
		}
		if len(d) > 0 {
			t.Fatalf("C03 violation: tx signed only by the attacker changed state attributed to the %s victim\n  message: %s\n  tx log: %.200s\n  entries:%s",
				tpl.victim, desc, r.Log, project.Short(d, 8))
		}
		if g := c03GovDigest(c); g != govBefore {
			t.Fatalf("C03 violation: tx signed only by the attacker changed governance-controlled settings\n  message: %s\n  before: %.600s\n  after:  %.600s", desc, govBefore, g)
		}
	}
	// positive controls (non-vacuity): the victim validator, and its fee-grantee, can act for it
	ctrl := 0
	ka := &vtypes.MsgKeepAlive{Metadata: chain.MD(e.vb.Actor), PigeonVersion: "v2.1.0"}
	kaP := &vtypes.MsgKeepAlive{Metadata: chain.MDAs(e.vb.Addr, e.pigeon), PigeonVersion: "v2.2.0"}
	ownCtl := &tftypes.MsgCreateDenom{Metadata: chain.MDAs(e.attacker.Addr, e.grantee), Subdenom: "ownctl"}
	res, err := c.Block(c.MustSign(e.vb.Actor, ka), c.MustSign(e.pigeon, kaP), c.MustSign(e.grantee, ownCtl))
	if err != nil {
		t.Fatalf("block: %v", err)
	}
	for _, r := range res.TxResults {
		if r.Code == 0 {
			ctrl++
		}
	}
	if ctrl != 3 {
		t.Fatalf("positive control failed: principal / fee-grantee could not act (%d of 3): %s | %s | %s", ctrl, res.TxResults[0].Log, res.TxResults[1].Log, res.TxResults[2].Log)
	}
	labels := []string{fmt.Sprintf("accepted=%d", accepted), fmt.Sprintf("authRejected>=%d", authRejected/4*4)}
	for _, l := range log {
		// per template x route x outcome histogram
		p := strings.SplitN(l, "{", 2)
		rt := l[strings.Index(l, "route="):]
		labels = append(labels, p[0]+" "+rt)
	}
	evid.Case(t.Name(), strings.Join(log, " | "), reachedHandler > 0, labels, func() any { return log })
	_ = time.Now
}
