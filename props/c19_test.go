package props

// C19 — application mempool: every pending tx exactly once, nonce order per sender, class priority,
// count == |pending|.  Model-based (rapid state machine) against map[(sender,nonce)]tx.

import (
	"context"
	"fmt"
	"sort"
	"strings"
	"testing"

	cmtproto "github.com/cometbft/cometbft/proto/tendermint/types"
	"github.com/cosmos/cosmos-sdk/crypto/keys/secp256k1"
	cryptotypes "github.com/cosmos/cosmos-sdk/crypto/types"
	sdk "github.com/cosmos/cosmos-sdk/types"
	sdkmempool "github.com/cosmos/cosmos-sdk/types/mempool"
	"github.com/cosmos/cosmos-sdk/types/tx/signing"
	banktypes "github.com/cosmos/cosmos-sdk/x/bank/types"
	sdkconsensustypes "github.com/cosmos/cosmos-sdk/x/consensus/types"
	govv1 "github.com/cosmos/cosmos-sdk/x/gov/types/v1"
	protov2 "google.golang.org/protobuf/proto"
	"pgregory.net/rapid"

	palomamempool "github.com/palomachain/paloma/v2/app/mempool"
	consensustypes "github.com/palomachain/paloma/v2/x/consensus/types"
	evmtypes "github.com/palomachain/paloma/v2/x/evm/types"
	palomatypes "github.com/palomachain/paloma/v2/x/paloma/types"
	schedtypes "github.com/palomachain/paloma/v2/x/scheduler/types"
	skywaytypes "github.com/palomachain/paloma/v2/x/skyway/types"
	treasurytypes "github.com/palomachain/paloma/v2/x/treasury/types"
	valsettypes "github.com/palomachain/paloma/v2/x/valset/types"

	"verif/harness/evid"
)

type mpTx struct {
	id     int
	sender int
	nonce  uint64
	msgs   []sdk.Msg
	pk     cryptotypes.PubKey
	prio   int64 // CheckTx priority handed in through the context
	shape  string
	// optional second signer: the transaction still belongs to its first signer (sender, nonce)
	coPk    cryptotypes.PubKey
	coNonce uint64
}

func (t *mpTx) GetMsgs() []sdk.Msg                        { return t.msgs }
func (t *mpTx) GetMsgsV2() ([]protov2.Message, error)     { return nil, nil }
func (t *mpTx) GetSigners() ([][]byte, error)             { return [][]byte{t.pk.Address()}, nil }
func (t *mpTx) GetPubKeys() ([]cryptotypes.PubKey, error) { return []cryptotypes.PubKey{t.pk}, nil }
func (t *mpTx) GetSignaturesV2() ([]signing.SignatureV2, error) {
	sigs := []signing.SignatureV2{{PubKey: t.pk, Sequence: t.nonce}}
	if t.coPk != nil {
		sigs = append(sigs, signing.SignatureV2{PubKey: t.coPk, Sequence: t.coNonce})
	}
	return sigs, nil
}

// the class the *statement* assigns (independent of the implementation's numeric priorities):
// single-message consensus > scheduler > evm > valset > everything else.
func c19Class(shape string) int {
	switch shape {
	case "consensus":
		return 4
	case "scheduler":
		return 3
	case "evm":
		return 2
	case "valset":
		return 1
	}
	return 0
}

var c19Shapes = []string{"consensus", "consensus2", "scheduler", "evm", "evm2", "valset", "valset2", "skyway", "bank", "multi-consensus", "multi-mixed", "sdkConsensusParams", "treasury", "govVote", "paloma"}

func c19Msgs(shape string) []sdk.Msg {
	switch shape {
	case "consensus":
		return []sdk.Msg{&consensustypes.MsgAddMessagesSignatures{}}
	case "consensus2":
		return []sdk.Msg{&consensustypes.MsgAddEvidence{}}
	case "scheduler":
		return []sdk.Msg{&schedtypes.MsgExecuteJob{}}
	case "evm":
		return []sdk.Msg{&evmtypes.MsgRemoveSmartContractDeploymentRequest{}}
	case "evm2":
		return []sdk.Msg{&evmtypes.MsgDeployUserSmartContractRequest{}}
	case "valset":
		return []sdk.Msg{&valsettypes.MsgKeepAlive{}}
	case "valset2":
		return []sdk.Msg{&valsettypes.MsgAddExternalChainInfoForValidator{}}
	case "skyway":
		return []sdk.Msg{&skywaytypes.MsgSendToRemote{}}
	case "bank":
		return []sdk.Msg{&banktypes.MsgSend{}}
	// messages of other modules whose type names resemble the prioritised ones: all of the lowest class
	case "sdkConsensusParams":
		return []sdk.Msg{&sdkconsensustypes.MsgUpdateParams{}} // /cosmos.consensus.v1.MsgUpdateParams: the SDK's consensus-params module
	case "treasury":
		return []sdk.Msg{&treasurytypes.MsgUpsertRelayerFee{}}
	case "govVote":
		return []sdk.Msg{&govv1.MsgVote{}}
	case "paloma":
		return []sdk.Msg{&palomatypes.MsgAddStatusUpdate{}}
	case "multi-consensus":
		return []sdk.Msg{&consensustypes.MsgAddMessagesSignatures{}, &consensustypes.MsgAddMessagesSignatures{}}
	case "multi-mixed":
		return []sdk.Msg{&schedtypes.MsgExecuteJob{}, &banktypes.MsgSend{}}
	}
	panic(shape)
}

func c19BaseShape(s string) string { return strings.TrimSuffix(s, "2") }

var c19Keys = func() []cryptotypes.PubKey {
	var ks []cryptotypes.PubKey
	for i := 0; i < 6; i++ {
		ks = append(ks, secp256k1.GenPrivKeyFromSecret([]byte(fmt.Sprintf("c19-sender-%d", i))).PubKey())
	}
	return ks
}()

type c19Key struct {
	sender int
	nonce  uint64
}

func c19Drain(t *rapid.T, mp sdkmempool.Mempool) []*mpTx {
	var outp []*mpTx
	it := mp.Select(context.Background(), nil)
	for it != nil {
		outp = append(outp, it.Tx().(*mpTx))
		if len(outp) > 10000 {
			t.Fatalf("select does not terminate")
		}
		it = it.Next()
	}
	return outp
}

func c19CheckOrder(t *rapid.T, model map[c19Key]*mpTx, got []*mpTx) {
	if len(got) != len(model) {
		t.Fatalf("select yielded %d txs, %d pending", len(got), len(model))
	}
	seen := map[int]bool{}
	remaining := map[int][]uint64{} // sender -> sorted nonces not yet yielded
	for k := range model {
		remaining[k.sender] = append(remaining[k.sender], k.nonce)
	}
	senders := make([]int, 0, len(remaining))
	for s := range remaining {
		senders = append(senders, s)
		ns := remaining[s]
		sort.Slice(ns, func(i, j int) bool { return ns[i] < ns[j] })
	}
	sort.Ints(senders)
	for pos, x := range got {
		m, ok := model[c19Key{x.sender, x.nonce}]
		if !ok || m.id != x.id {
			t.Fatalf("pos %d: yielded tx id=%d (sender %d nonce %d) is not pending (removed or never inserted)", pos, x.id, x.sender, x.nonce)
		}
		if seen[x.id] {
			t.Fatalf("pos %d: tx id=%d yielded twice", pos, x.id)
		}
		seen[x.id] = true
		rem := remaining[x.sender]
		if len(rem) == 0 || rem[0] != x.nonce {
			t.Fatalf("pos %d: sender %d yielded nonce %d but its lowest un-yielded nonce is %v", pos, x.sender, x.nonce, rem)
		}
		for _, s := range senders {
			if s == x.sender || len(remaining[s]) == 0 {
				continue
			}
			y := model[c19Key{s, remaining[s][0]}]
			if c19Class(c19BaseShape(y.shape)) > c19Class(c19BaseShape(x.shape)) {
				t.Fatalf("pos %d: yielded %s tx of sender %d (nonce %d) while sender %d's next tx (nonce %d) is of higher class %s",
					pos, x.shape, x.sender, x.nonce, s, y.nonce, y.shape)
			}
		}
		remaining[x.sender] = rem[1:]
	}
}

func TestC19_MempoolModel(t *testing.T) {
	evid.Check(t, 6000, 60000, func(t *rapid.T) {
		mp := palomamempool.DefaultPriorityMempool()
		model := map[c19Key]*mpTx{}
		var removedPool []*mpTx
		nextID := 0
		var log []string
		removesBeforeSelect, selects, selectsAfterRemove := 0, 0, 0
		coSigned := false
		nSenders := rapid.IntRange(1, 6).Draw(t, "nSenders")
		insert := func(t *rapid.T) {
			s := rapid.IntRange(0, nSenders-1).Draw(t, "sender")
			n := uint64(rapid.IntRange(0, 7).Draw(t, "nonce"))
			if _, dup := model[c19Key{s, n}]; dup {
				// the stated precondition: (sender, sequence) unique among pending txs -> pick the next free nonce
				for {
					n++
					if _, dup := model[c19Key{s, n}]; !dup {
						break
					}
				}
			}
			shape := rapid.SampledFrom(c19Shapes).Draw(t, "shape")
			prio := rapid.OneOf(rapid.Int64Range(0, 5), rapid.Int64Range(0, 1<<40), rapid.Just(int64(0))).Draw(t, "ctxPriority")
			tx := &mpTx{id: nextID, sender: s, nonce: n, msgs: c19Msgs(shape), pk: c19Keys[s], prio: prio, shape: shape}
			if rapid.IntRange(0, 5).Draw(t, "coSigned") == 0 {
				// co-signed by another account, whose own (sender, sequence) slot may well be taken by a pending tx of its own
				co := rapid.IntRange(0, nSenders-1).Draw(t, "coSigner")
				if co != s {
					tx.coPk, tx.coNonce = c19Keys[co], uint64(rapid.IntRange(0, 5).Draw(t, "coNonce"))
					coSigned = true
				}
			}
			nextID++
			ctx := sdk.NewContext(nil, cmtproto.Header{}, false, nil).WithPriority(prio)
			if err := mp.Insert(ctx, tx); err != nil {
				t.Fatalf("insert: %v", err)
			}
			model[c19Key{s, n}] = tx
			log = append(log, fmt.Sprintf("ins(s%d,n%d,%s,p%d)", s, n, shape, prio))
		}
		t.Repeat(map[string]func(*rapid.T){
			"insert":  insert,
			"insert2": insert,
			"removePresent": func(t *rapid.T) {
				if len(model) == 0 {
					t.Skip("empty")
				}
				keys := make([]c19Key, 0, len(model))
				for k := range model {
					keys = append(keys, k)
				}
				sort.Slice(keys, func(i, j int) bool {
					if keys[i].sender != keys[j].sender {
						return keys[i].sender < keys[j].sender
					}
					return keys[i].nonce < keys[j].nonce
				})
				k := rapid.SampledFrom(keys).Draw(t, "key")
				tx := model[k]
				if err := mp.Remove(tx); err != nil {
					t.Fatalf("remove of a pending tx failed: %v", err)
				}
				delete(model, k)
				removedPool = append(removedPool, tx)
				removesBeforeSelect++
				log = append(log, fmt.Sprintf("rm(s%d,n%d)", k.sender, k.nonce))
			},
			"removeAbsent": func(t *rapid.T) {
				if len(removedPool) == 0 {
					t.Skip("nothing removed yet")
				}
				tx := rapid.SampledFrom(removedPool).Draw(t, "removedTx")
				if _, pending := model[c19Key{tx.sender, tx.nonce}]; pending {
					t.Skip("same (sender, nonce) pending again")
				}
				if err := mp.Remove(tx); err == nil {
					t.Fatalf("removing an absent tx reported success")
				}
				log = append(log, fmt.Sprintf("rmAbsent(s%d,n%d)", tx.sender, tx.nonce))
			},
			"select": func(t *rapid.T) {
				got := c19Drain(t, mp)
				c19CheckOrder(t, model, got)
				again := c19Drain(t, mp)
				c19CheckOrder(t, model, again)
				selects++
				if removesBeforeSelect > 0 {
					selectsAfterRemove++
				}
				log = append(log, fmt.Sprintf("select(%d)", len(got)))
			},
			"": func(t *rapid.T) {
				if mp.CountTx() != len(model) {
					t.Fatalf("CountTx=%d, pending=%d", mp.CountTx(), len(model))
				}
			},
		})
		got := c19Drain(t, mp)
		c19CheckOrder(t, model, got)
		log = append(log, fmt.Sprintf("final-select(%d)", len(got)))

		// non-trivial: >=2 senders with >=2 pending txs each, >=2 classes present, >=1 remove before a select
		perSender := map[int]int{}
		classes := map[int]bool{}
		for k, tx := range model {
			perSender[k.sender]++
			classes[c19Class(c19BaseShape(tx.shape))] = true
		}
		multi := 0
		for _, n := range perSender {
			if n >= 2 {
				multi++
			}
		}
		nt := multi >= 2 && len(classes) >= 2 && removesBeforeSelect >= 1
		labels := []string{fmt.Sprintf("classes=%d", len(classes)), fmt.Sprintf("multiSenders=%d", multi)}
		if removesBeforeSelect > 0 {
			labels = append(labels, "hasRemove")
		}
		if selectsAfterRemove > 0 {
			labels = append(labels, "selectAfterRemove")
		}
		trace := strings.Join(log, " ")
		if coSigned {
			labels = append(labels, "coSignedTx")
		}
		evid.Case(t.Name(), trace, nt, labels, func() any { return trace })
	})
}
