package props

// C18 — light-node licence funds: escrowed 1:1, created only for fresh addresses, activated once by the licensee
// into a continuously vesting balance; attested sales create a licence only when fully configured.

import (
	"fmt"
	"github.com/cosmos/cosmos-sdk/x/authz"
	"math/big"
	"sort"
	"strings"
	"testing"
	"time"

	sdkmath "cosmossdk.io/math"
	sdk "github.com/cosmos/cosmos-sdk/types"
	authtypes "github.com/cosmos/cosmos-sdk/x/auth/types"
	vestingtypes "github.com/cosmos/cosmos-sdk/x/auth/vesting/types"
	banktypes "github.com/cosmos/cosmos-sdk/x/bank/types"
	"pgregory.net/rapid"

	palomatypes "github.com/palomachain/paloma/v2/x/paloma/types"
	skywaytypes "github.com/palomachain/paloma/v2/x/skyway/types"

	"verif/harness/chain"
	"verif/harness/evid"
)

const c18Chain = "eth-main"
const c18Sale = "0x00000000000000000000000000000000000000f7"
const c18OtherDenom = "uusdc"

type c18Lic struct {
	denom  string
	amount *big.Int
	months uint32
}

type c18Active struct {
	amount *big.Int
	denom  string
	start  time.Time
	end    time.Time
	gifts  *big.Int
}

func TestC18_LicenceEscrowAndVesting(t *testing.T) {
	evid.Check(t, 100, 500, func(t *rapid.T) {
		salt := fmt.Sprintf("c18-%d", rapid.IntRange(0, 1<<30).Draw(t, "salt"))
		c, err := chain.New(chain.Options{Salt: salt, Stakes: []int64{100_000_000, 100_000_000, 100_000_000}, Users: []string{"rich", "poor", "granter", "stranger"}, UserBalance: 1_000_000_000,
			EvmChains: []chain.EvmChain{{RefID: c18Chain, ChainID: 1}},
			UserExtra: sdk.NewCoins(sdk.NewCoin(c18OtherDenom, sdkmath.NewInt(1_000_000_000)))})
		if err != nil {
			t.Fatalf("boot: %v", err)
		}
		defer c.Close()
		if err := c.Ready(); err != nil {
			t.Fatalf("ready: %v", err)
		}
		rich, poor, granter, stranger := c.Users["rich"], c.Users["poor"], c.Users["granter"], c.Users["stranger"]
		// make "poor" poor
		if res, err := c.Block(c.MustSign(poor, banktypes.NewMsgSend(poor.Addr, rich.Addr, sdk.NewCoins(sdk.NewCoin(chain.BondDenom, sdkmath.NewInt(999_000_000)))))); err != nil || res.TxResults[0].Code != 0 {
			t.Fatalf("drain: %v", err)
		}
		// "locked": a funder whose whole balance is vesting-locked until far in the future - it HAS the coins, but the
		// bank refuses to move them
		locked := chain.MkActor(salt + "/locked-funder")
		if res, err := c.Block(c.MustSign(rich, vestingtypes.NewMsgCreateVestingAccount(rich.Addr, locked.Addr, sdk.NewCoins(sdk.NewCoin(chain.BondDenom, sdkmath.NewInt(500_000_000))), chain.BlockTime(c.H).Unix()+10*365*86400, true))); err != nil || res.TxResults[0].Code != 0 {
			t.Fatalf("locked funder: %v %v", err, res)
		}
		clients := []chain.Actor{chain.MkActor(salt + "/cl0"), chain.MkActor(salt + "/cl1"), chain.MkActor(salt + "/cl2"), chain.MkActor(salt + "/cl3"), chain.MkActor(salt + "/cl4"), chain.MkActor(salt + "/cl5"), stranger}
		pending := map[string]*c18Lic{}
		active := map[string]*c18Active{}
		hasAccount := map[string]bool{stranger.Addr.String(): true}
		pendingGift := map[string]*big.Int{}
		giftsToModule := false
		cfg := map[string]bool{"funders": false, "feegranter": false, "contract": false}
		forceRightContract := false
		foreignActivations := 0
		foreignSeq := 0
		var funders []sdk.AccAddress
		var log []string
		skyNonce := uint64(0)
		maxPending, saleOneMissing, activations := 0, 0, 0
		modAddr := authtypes.NewModuleAddress(palomatypes.ModuleName)

		invariant := func(t *rapid.T) {
			ctx := c.ReadCtx()
			lics, err := c.App.PalomaKeeper.AllLightNodeClientLicenses(ctx)
			if err != nil {
				t.Fatalf("licences: %v", err)
			}
			if len(lics) != len(pending) {
				t.Fatalf("%d licences stored, model has %d pending\nhistory: %v", len(lics), len(pending), log)
			}
			sums := map[string]*big.Int{}
			for _, l := range lics {
				m := pending[l.ClientAddress]
				if m == nil || m.denom != l.Amount.Denom || m.amount.Cmp(l.Amount.Amount.BigInt()) != 0 || m.months != l.VestingMonths {
					t.Fatalf("stored licence %v does not match the model %v", l, m)
				}
				if sums[m.denom] == nil {
					sums[m.denom] = new(big.Int)
				}
				sums[m.denom].Add(sums[m.denom], m.amount)
			}
			for _, d := range []string{chain.BondDenom, c18OtherDenom} {
				bal := c.App.BankKeeper.GetBalance(ctx, modAddr, d).Amount.BigInt()
				want := sums[d]
				if want == nil {
					want = new(big.Int)
				}
				if bal.Cmp(want) < 0 || (!giftsToModule && bal.Cmp(want) != 0) {
					t.Fatalf("escrow holds %s %s, pending licences sum to %s\nhistory: %v", bal, d, want, log)
				}
			}
			if len(pending) > maxPending {
				maxPending = len(pending)
			}
			// vesting schedule of activated licensees
			now := chain.BlockTime(c.H - 1)
			addrs := make([]string, 0, len(active))
			for a := range active {
				addrs = append(addrs, a)
			}
			sort.Strings(addrs)
			for _, a := range addrs {
				x := active[a]
				acc := c.App.AccountKeeper.GetAccount(ctx, sdk.MustAccAddressFromBech32(a))
				va, ok := acc.(*vestingtypes.ContinuousVestingAccount)
				if !ok {
					t.Fatalf("activated licensee %s has account type %T", a, acc)
				}
				if va.OriginalVesting.AmountOf(x.denom).BigInt().Cmp(x.amount) != 0 || va.StartTime != x.start.Unix() || va.EndTime != x.end.Unix() {
					t.Fatalf("vesting account of %s: original %s start %d end %d, expected %s %d %d", a, va.OriginalVesting, va.StartTime, va.EndTime, x.amount, x.start.Unix(), x.end.Unix())
				}
				gifts := x.gifts // gifts are made in the bond denom
				if x.denom != chain.BondDenom {
					gifts = new(big.Int)
				}
				total := c.App.BankKeeper.GetBalance(ctx, sdk.MustAccAddressFromBech32(a), x.denom).Amount.BigInt()
				if total.Cmp(new(big.Int).Add(x.amount, gifts)) != 0 {
					t.Fatalf("licensee %s holds %s %s, expected licence %s + gifts %s", a, total, x.denom, x.amount, gifts)
				}
				sctx := ctx.WithBlockTime(now)
				spend := c.App.BankKeeper.SpendableCoins(sctx, sdk.MustAccAddressFromBech32(a)).AmountOf(x.denom).BigInt()
				// linear schedule (tolerance 1 unit for rounding)
				var vested *big.Int
				switch {
				case !now.After(x.start):
					vested = new(big.Int)
				case !now.Before(x.end):
					vested = new(big.Int).Set(x.amount)
				default:
					num := new(big.Int).Mul(x.amount, big.NewInt(now.Unix()-x.start.Unix()))
					vested = num.Div(num, big.NewInt(x.end.Unix()-x.start.Unix()))
				}
				want := new(big.Int).Add(vested, gifts)
				diff := new(big.Int).Sub(spend, want)
				if diff.CmpAbs(big.NewInt(1)) > 0 {
					t.Fatalf("licensee %s can spend %s at %s, linear schedule gives %s (start %s end %s amount %s gifts %s)", a, spend, now, want, x.start, x.end, x.amount, x.gifts)
				}
			}
		}
		deliver := func(t *rapid.T, who chain.Actor, msg sdk.Msg) (bool, int64) {
			h := c.H
			bz, err := c.Sign([]chain.Actor{who}, msg)
			if err != nil {
				return false, h // signer has no account
			}
			res, err := c.Block(bz)
			if err != nil {
				t.Fatalf("block: %v", err)
			}
			return res.TxResults[0].Code == 0, h
		}
		if rapid.Bool().Draw(t, "startConfigured") {
			ctx := c.Ctx()
			_ = c.App.PalomaKeeper.SetLightNodeClientFunders(ctx, []sdk.AccAddress{poor.Addr, rich.Addr})
			_ = c.App.PalomaKeeper.SetLightNodeClientFeegranter(ctx, granter.Addr)
			_ = c.App.SkywayKeeper.SetAllLighNodeSaleContracts(ctx, []*skywaytypes.LightNodeSaleContract{{ChainReferenceId: c18Chain, ContractAddress: c18Sale}})
			cfg["funders"], cfg["feegranter"], cfg["contract"] = true, true, true
			funders = []sdk.AccAddress{poor.Addr, rich.Addr}
		}
		directLicence := func(t *rapid.T) {
			creator := rapid.SampledFrom([]chain.Actor{rich, rich, poor, stranger}).Draw(t, "creator")
			cl := rapid.SampledFrom(clients).Draw(t, "client")
			amt := rapid.OneOf(rapid.Int64Range(1, 1000), rapid.Int64Range(1_000_000, 50_000_000), rapid.Just(int64(5_000_000_000))).Draw(t, "amount")
			months := uint32(rapid.SampledFrom([]int{0, 1, 6, 24, 120}).Draw(t, "months"))
			denom := chain.BondDenom
			if rapid.IntRange(0, 2).Draw(t, "otherDenom") == 0 {
				denom = c18OtherDenom
			}
			ok, _ := deliver(t, creator, &palomatypes.MsgAddLightNodeClientLicense{Metadata: chain.MD(creator), ClientAddress: cl.Addr.String(), Amount: sdk.NewCoin(denom, sdkmath.NewInt(amt)), VestingMonths: months})
			log = append(log, fmt.Sprintf("licence(%s->%s,%d%s,%dm)=%v", creator.Name, cl.Name[len(cl.Name)-3:], amt, denom, months, ok))
			a := cl.Addr.String()
			if ok {
				if hasAccount[a] || pending[a] != nil || active[a] != nil {
					t.Fatalf("licence created for %s which already had an account or a licence\nhistory: %v", a, log)
				}
				pending[a] = &c18Lic{denom: denom, amount: big.NewInt(amt), months: months}
				hasAccount[a] = true
			}
		}
		configure := func(t *rapid.T) {
			what := rapid.SampledFrom([]string{"funders", "feegranter", "contract", "contract"}).Draw(t, "what")
			on := rapid.Bool().Draw(t, "on")
			ctx := c.Ctx()
			switch what {
			case "funders":
				var f []sdk.AccAddress
				if on {
					f = []sdk.AccAddress{poor.Addr, rich.Addr}
					switch rapid.IntRange(0, 3).Draw(t, "funderSet") {
					case 0:
						f = []sdk.AccAddress{poor.Addr}
					case 1:
						// a liquid funder followed by one whose coins are locked
						f = []sdk.AccAddress{rich.Addr, locked.Addr}
					}
				}
				if err := c.App.PalomaKeeper.SetLightNodeClientFunders(ctx, f); err != nil {
					t.Fatalf("funders: %v", err)
				}
				funders = f
			case "feegranter":
				if on {
					if err := c.App.PalomaKeeper.SetLightNodeClientFeegranter(ctx, granter.Addr); err != nil {
						t.Fatalf("feegranter: %v", err)
					}
				} else {
					c.App.PalomaKeeper.Store(ctx).Delete(palomatypes.LightNodeClientFeegranterKey)
				}
			case "contract":
				// the proposal replaces the whole set of sale contracts: besides (or without) the bridge chain's own contract it
				// may name contracts on chains that sort before and after it
				var cs []*skywaytypes.LightNodeSaleContract
				if rapid.IntRange(0, 3).Draw(t, "contractOnEarlierChain") > 0 {
					cs = append(cs, &skywaytypes.LightNodeSaleContract{ChainReferenceId: "arb-main", ContractAddress: "0x00000000000000000000000000000000000000a7"})
				}
				if on {
					cs = append(cs, &skywaytypes.LightNodeSaleContract{ChainReferenceId: c18Chain, ContractAddress: c18Sale})
				}
				if rapid.Bool().Draw(t, "contractOnLaterChain") {
					cs = append(cs, &skywaytypes.LightNodeSaleContract{ChainReferenceId: "zk-main", ContractAddress: "0x00000000000000000000000000000000000000b7"})
				}
				if err := c.App.SkywayKeeper.SetAllLighNodeSaleContracts(ctx, cs); err != nil {
					t.Fatalf("contracts: %v", err)
				}
			}
			cfg[what] = on
			log = append(log, fmt.Sprintf("cfg(%s=%v)", what, on))
		}
		attestedSale := func(t *rapid.T) {
			cl := rapid.SampledFrom(clients).Draw(t, "client")
			grain := int64(rapid.IntRange(1, 50).Draw(t, "grain"))
			contract := c18Sale
			wrongContract := rapid.IntRange(0, 4).Draw(t, "wrongContract") == 0
			if !cfg["contract"] && rapid.Bool().Draw(t, "noContractAnywhere") {
				wrongContract = true
			}
			if forceRightContract {
				wrongContract = false
			}
			if wrongContract {
				// another contract, or no originating contract at all (the field is not validated statelessly)
				contract = rapid.SampledFrom([]string{"0x00000000000000000000000000000000000000f8", "", ""}).Draw(t, "otherContract")
			}
			skyNonce++
			a := cl.Addr.String()
			ctx := c.ReadCtx()
			richBefore := c.App.BankKeeper.GetBalance(ctx, rich.Addr, chain.BondDenom)
			poorBefore := c.App.BankKeeper.GetBalance(ctx, poor.Addr, chain.BondDenom)
			var txs [][]byte
			for _, v := range c.Vals {
				txs = append(txs, c.MustSign(v.Actor, &skywaytypes.MsgLightNodeSaleClaim{Metadata: chain.MD(v.Actor), Orchestrator: v.Addr.String(), EventNonce: skyNonce, SkywayNonce: skyNonce, EthBlockHeight: 100 + skyNonce,
					ChainReferenceId: c18Chain, ClientAddress: a, Amount: sdkmath.NewInt(grain), SmartContractAddress: contract, CompassId: "compass-1"}))
			}
			res, err := c.Block(txs...)
			if err != nil {
				t.Fatalf("block: %v", err)
			}
			for i, r := range res.TxResults {
				if r.Code != 0 {
					t.Fatalf("sale vote %d rejected: %s", i, r.Log)
				}
			}
			ctx = c.ReadCtx()
			lic, lerr := c.App.PalomaKeeper.GetLightNodeClientLicense(ctx, a)
			created := lerr == nil && pending[a] == nil
			missing := 0
			for _, k := range []string{"feegranter", "contract"} {
				if !cfg[k] {
					missing++
				}
			}
			canFund := false
			need := sdkmath.NewInt(grain).Mul(sdkmath.NewInt(1_000_000))
			for _, f := range funders {
				bal := poorBefore
				if f.Equals(rich.Addr) {
					bal = richBefore
				}
				if f.Equals(locked.Addr) {
					continue // its coins cannot be moved: it can never fund a sale
				}
				if bal.Amount.GTE(need) {
					canFund = true
				}
			}
			if !canFund {
				missing++
			}
			if wrongContract && cfg["contract"] {
				missing++
			}
			fresh := !hasAccount[a] && pending[a] == nil && active[a] == nil
			log = append(log, fmt.Sprintf("sale(%s,%d grain,wrongContract=%v,missing=%d,fresh=%v)=created:%v", cl.Name[len(cl.Name)-3:], grain, wrongContract, missing, fresh, created))
			if missing == 1 {
				saleOneMissing++
			}
			if created {
				if missing > 0 {
					t.Fatalf("sale created a licence although %d prerequisite(s) were missing (cfg %v, wrong contract %v)\nhistory: %v", missing, cfg, wrongContract, log)
				}
				if !fresh {
					t.Fatalf("sale created a licence for an address that already had an account or licence")
				}
				want := new(big.Int).Mul(big.NewInt(grain), big.NewInt(1_000_000))
				if lic.Amount.Denom != chain.BondDenom || lic.Amount.Amount.BigInt().Cmp(want) != 0 {
					t.Fatalf("sale licence amount %s, expected %s ugrain", lic.Amount, want)
				}
				pending[a] = &c18Lic{denom: chain.BondDenom, amount: want, months: lic.VestingMonths}
				hasAccount[a] = true
			} else {
				// nothing may have changed: no account, funders intact
				if !hasAccount[a] && c.App.AccountKeeper.HasAccount(ctx, cl.Addr) {
					t.Fatalf("failed sale left an account behind for %s\nhistory: %v", a, log)
				}
				if !c.App.BankKeeper.GetBalance(ctx, rich.Addr, chain.BondDenom).Amount.Equal(richBefore.Amount) || !c.App.BankKeeper.GetBalance(ctx, poor.Addr, chain.BondDenom).Amount.Equal(poorBefore.Amount) {
					t.Fatalf("failed sale moved funder coins\nhistory: %v", log)
				}
			}
		}
		activate := func(t *rapid.T) {
			cl := rapid.SampledFrom(clients).Draw(t, "client")
			if len(pending) > 0 && rapid.Bool().Draw(t, "pendingClient") {
				keys := make([]string, 0, len(pending))
				for k := range pending {
					keys = append(keys, k)
				}
				sort.Strings(keys)
				pick := rapid.SampledFrom(keys).Draw(t, "which")
				for _, x := range clients {
					if x.Addr.String() == pick {
						cl = x
					}
				}
			}
			by := cl
			if rapid.IntRange(0, 3).Draw(t, "byOther") == 0 {
				by = rich
			}
			a := cl.Addr.String()
			msg := &palomatypes.MsgRegisterLightNodeClient{Metadata: chain.MD(by)}
			ok, h := deliver(t, by, msg)
			log = append(log, fmt.Sprintf("activate(%s by %s)=%v", cl.Name[len(cl.Name)-3:], by.Name[max(0, len(by.Name)-4):], ok))
			if ok {
				target := by.Addr.String()
				l := pending[target]
				if l == nil {
					t.Fatalf("activation by %s succeeded without a pending licence for it\nhistory: %v", target, log)
				}
				start := chain.BlockTime(h)
				g := pendingGift[target]
				if g == nil {
					g = new(big.Int)
				}
				active[target] = &c18Active{amount: l.amount, denom: l.denom, start: start, end: start.AddDate(0, int(l.months), 0), gifts: g}
				delete(pending, target)
				activations++
			}
			_ = a
		}
		t.Repeat(map[string]func(*rapid.T){
			"directLicence":  directLicence,
			"directLicence2": directLicence,
			"directLicence3": directLicence,
			"configure":      configure,
			// somebody else tries to activate a pending licence in the licensee's name: the message names the licensee as
			// creator but is signed by the stranger, bare or wrapped in 1-3 layers of authz.MsgExec
			"foreignActivate": func(t *rapid.T) {
				if len(pending) == 0 {
					t.Skip("no pending licence")
				}
				keys := make([]string, 0, len(pending))
				for k := range pending {
					keys = append(keys, k)
				}
				sort.Strings(keys)
				pick := rapid.SampledFrom(keys).Draw(t, "which")
				target, _ := sdk.AccAddressFromBech32(pick)
				var msg sdk.Msg = &palomatypes.MsgRegisterLightNodeClient{Metadata: chain.MDAs(target, rich)}
				depth := rapid.IntRange(0, 3).Draw(t, "execDepth")
				for i := 0; i < depth; i++ {
					ex := authz.NewMsgExec(rich.Addr, []sdk.Msg{msg})
					msg = &ex
				}
				var ok bool
				if rapid.Bool().Draw(t, "afterOwnMessage") {
					// ... placed behind a legitimate message of the stranger's own in the same transaction
					foreignSeq++
					own := &palomatypes.MsgAddStatusUpdate{Metadata: chain.MD(rich), Status: fmt.Sprintf("own-%d", foreignSeq), Level: palomatypes.MsgAddStatusUpdate_LEVEL_INFO}
					bz, err := c.Sign([]chain.Actor{rich}, own, msg)
					if err != nil {
						t.Fatalf("sign: %v", err)
					}
					res, err := c.Block(bz)
					if err != nil {
						t.Fatalf("block: %v", err)
					}
					ok = res.TxResults[0].Code == 0
				} else {
					ok, _ = deliver(t, rich, msg)
				}
				log = append(log, fmt.Sprintf("foreignActivate(%s,depth %d)=%v", pick[len(pick)-4:], depth, ok))
				if ok {
					t.Fatalf("a licence was activated by an account that is not the licensee (authz nesting depth %d)\nhistory: %v", depth, log)
				}
				foreignActivations++
				_ = foreignActivations
			},
			// governance withdraws the bridge chain's sale contract (the replacement set names other chains only, or
			// nothing) and the formerly authorised contract reports a sale right afterwards
			"withdrawContractThenSale": func(t *rapid.T) {
				if !cfg["contract"] {
					t.Skip("no contract configured")
				}
				var cs []*skywaytypes.LightNodeSaleContract
				if rapid.Bool().Draw(t, "keepEarlierChain") {
					cs = append(cs, &skywaytypes.LightNodeSaleContract{ChainReferenceId: "arb-main", ContractAddress: "0x00000000000000000000000000000000000000a7"})
				}
				if rapid.Bool().Draw(t, "keepLaterChain") {
					cs = append(cs, &skywaytypes.LightNodeSaleContract{ChainReferenceId: "zk-main", ContractAddress: "0x00000000000000000000000000000000000000b7"})
				}
				if err := c.App.SkywayKeeper.SetAllLighNodeSaleContracts(c.Ctx(), cs); err != nil {
					t.Fatalf("contracts: %v", err)
				}
				cfg["contract"] = false
				log = append(log, fmt.Sprintf("cfg(contract withdrawn, %d other chains kept)", len(cs)))
				forceRightContract = true
				defer func() { forceRightContract = false }()
				attestedSale(t)
			},
			"attestedSale":  attestedSale,
			"attestedSale2": attestedSale,
			"activate":      activate,
			"activate2":     activate,
			"auth": func(t *rapid.T) {
				cl := rapid.SampledFrom(clients).Draw(t, "client")
				ok, _ := deliver(t, cl, &palomatypes.MsgAuthLightNodeClient{Metadata: chain.MD(cl)})
				if ok && active[cl.Addr.String()] == nil {
					t.Fatalf("authentication succeeded for a client that never activated")
				}
				log = append(log, fmt.Sprintf("auth(%s)=%v", cl.Name[len(cl.Name)-3:], ok))
			},
			"giftToClient": func(t *rapid.T) {
				cl := rapid.SampledFrom(clients[:6]).Draw(t, "client")
				amt := int64(rapid.IntRange(1, 1000).Draw(t, "amt"))
				ok, _ := deliver(t, rich, banktypes.NewMsgSend(rich.Addr, cl.Addr, sdk.NewCoins(sdk.NewCoin(chain.BondDenom, sdkmath.NewInt(amt)))))
				a := cl.Addr.String()
				if ok {
					hasAccount[a] = true
					if x := active[a]; x != nil {
						x.gifts = new(big.Int).Add(x.gifts, big.NewInt(amt))
					} else {
						if pendingGift[a] == nil {
							pendingGift[a] = new(big.Int)
						}
						pendingGift[a].Add(pendingGift[a], big.NewInt(amt))
					}
				}
				log = append(log, fmt.Sprintf("gift(%s,%d)=%v", cl.Name[len(cl.Name)-3:], amt, ok))
			},
			"giftToEscrow": func(t *rapid.T) {
				ok, _ := deliver(t, rich, banktypes.NewMsgSend(rich.Addr, modAddr, sdk.NewCoins(sdk.NewCoin(chain.BondDenom, sdkmath.NewInt(7)))))
				if ok {
					giftsToModule = true
				}
				log = append(log, fmt.Sprintf("giftEscrow=%v", ok))
			},
			"advance": func(t *rapid.T) {
				n := rapid.SampledFrom([]int{1, 5, 40}).Draw(t, "blocks")
				if err := c.Advance(n); err != nil {
					t.Fatalf("advance: %v", err)
				}
			},
			"": invariant,
		})
		nt := maxPending >= 2 || saleOneMissing > 0
		labels := []string{fmt.Sprintf("maxPending=%d", maxPending), fmt.Sprintf("activations=%d", min(activations, 3))}
		if saleOneMissing > 0 {
			labels = append(labels, "saleWithOnePrerequisiteMissing")
		}
		evid.Case(t.Name(), strings.Join(log, " "), nt, labels, func() any { return log })
	})
}
