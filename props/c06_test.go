package props

// C06 — every stored signature verifies against the item's CURRENT signing bytes under the key its validator had
// registered for that chain when it signed; validator and key at most once per item; signatures are discarded when
// the signing bytes change.

import (
	"bytes"
	"crypto/ecdsa"
	"encoding/hex"
	"encoding/json"
	"fmt"
	treasurytypes "github.com/palomachain/paloma/v2/x/treasury/types"
	"strings"
	"testing"

	sdkmath "cosmossdk.io/math"
	sdk "github.com/cosmos/cosmos-sdk/types"
	"github.com/ethereum/go-ethereum/common"
	ethcrypto "github.com/ethereum/go-ethereum/crypto"
	"pgregory.net/rapid"

	consensustypes "github.com/palomachain/paloma/v2/x/consensus/types"
	evmtypes "github.com/palomachain/paloma/v2/x/evm/types"
	schedtypes "github.com/palomachain/paloma/v2/x/scheduler/types"
	skywaytypes "github.com/palomachain/paloma/v2/x/skyway/types"
	vtypes "github.com/palomachain/paloma/v2/x/valset/types"

	"verif/harness/chain"
	"verif/harness/evid"
)

const c06Chain = "eth-main"

// a second remote chain, on which every validator has a different account (key): signatures for its queue must be
// made with, and stored under, that chain's key
const c06Chain2 = "bnb-main"
const c06ERC20 = "0x00000000000000000000000000000000000000E1"

// c06Recover returns the address that signed hash (with the ethereum message prefix), independent of the
// implementation's helpers.
func c06Recover(hash, sig []byte) (common.Address, bool) {
	if len(sig) != 65 {
		return common.Address{}, false
	}
	s := append([]byte(nil), sig...)
	if s[64] >= 27 {
		s[64] -= 27
	}
	protected := ethcrypto.Keccak256(append([]byte("\x19Ethereum Signed Message:\n32"), hash...))
	pk, err := ethcrypto.SigToPub(protected, s)
	if err != nil {
		return common.Address{}, false
	}
	return ethcrypto.PubkeyToAddress(*pk), true
}

func TestC06_StoredSignaturesAlwaysValid(t *testing.T) {
	evid.Check(t, 80, 400, func(t *rapid.T) {
		salt := fmt.Sprintf("c06-%d", rapid.IntRange(0, 1<<30).Draw(t, "salt"))
		n := rapid.IntRange(3, 5).Draw(t, "nVals")
		stakes := make([]int64, n)
		for i := range stakes {
			stakes[i] = 100_000_000
		}
		c, err := chain.New(chain.Options{Salt: salt, Stakes: stakes, InitialHeight: 44, Users: []string{"ub"}, EvmChains: []chain.EvmChain{{RefID: c06Chain, ChainID: 1}, {RefID: c06Chain2, ChainID: 56}}})
		if err != nil {
			t.Fatalf("boot: %v", err)
		}
		defer c.Close()
		if err := c.Ready(); err != nil {
			t.Fatalf("ready: %v", err)
		}
		ub := c.Users["ub"]
		tok, err := c.SetupToken(ub, "tok", sdkmath.NewInt(1_000_000_000), c06Chain, c06ERC20)
		if err != nil {
			t.Fatalf("token: %v", err)
		}
		def, _ := json.Marshal(evmtypes.JobDefinition{ABI: "[]", Address: "0x00000000000000000000000000000000000000aa"})
		pl, _ := json.Marshal(evmtypes.JobPayload{HexPayload: "0xdeadbeef"})
		res, err := c.Block(
			c.MustSign(ub, &schedtypes.MsgCreateJob{Metadata: chain.MD(ub), Job: &schedtypes.Job{ID: "j1", Routing: schedtypes.Routing{ChainType: "evm", ChainReferenceID: c06Chain}, Definition: def, Payload: pl}},
				&schedtypes.MsgCreateJob{Metadata: chain.MD(ub), Job: &schedtypes.Job{ID: "j2", Routing: schedtypes.Routing{ChainType: "evm", ChainReferenceID: c06Chain2}, Definition: def, Payload: pl}},
				&skywaytypes.MsgSendToRemote{Metadata: chain.MD(ub), EthDest: "0x00000000000000000000000000000000000000d1", Amount: sdk.NewCoin(tok.Denom, sdkmath.NewInt(100)), ChainReferenceId: c06Chain}))
		if err != nil || res.TxResults[0].Code != 0 {
			t.Fatalf("setup: %v %v", err, res)
		}
		if err := c.AdvanceTo(51); err != nil { // batch built at 50
			t.Fatalf("advance: %v", err)
		}
		q := chain.TurnstoneQueue(c06Chain)
		q2 := chain.TurnstoneQueue(c06Chain2)
		// model: registered key per validator (history), key generation counter
		keyGen := make([]int, n)
		retiredKeys := map[int][]*ecdsa.PrivateKey{}
		curKey := func(i int) string { return chain.EthAddr(c.Vals[i].EthKeys[c06Chain]).Hex() }
		// signer address recorded at signing time: item -> validator -> address
		signedWith := map[string]map[string]string{}
		var log []string
		changedAfterSig, rekeyBetween := false, false
		acrossChains := false
		jailedOne, jailedConfirmer := false, false
		sigCount := 0
		itemHadSig := map[string]bool{}
		lastBytes := map[string]string{}

		checkAll := func(t *rapid.T) {
			ctx := c.ReadCtx()
			ms, err := c.App.ConsensusKeeper.GetMessagesFromQueue(ctx, q, 0)
			if err != nil {
				t.Fatalf("queue: %v", err)
			}
			ms2, err := c.App.ConsensusKeeper.GetMessagesFromQueue(ctx, q2, 0)
			if err != nil {
				t.Fatalf("queue: %v", err)
			}
			ms = append(ms, ms2...)
			for _, m := range ms {
				item := fmt.Sprintf("msg-%d", m.GetId())
				bz, err := m.GetBytesToSign(c.App.AppCodec())
				if err != nil {
					t.Fatalf("bytes to sign: %v", err)
				}
				if lb, ok := lastBytes[item]; ok && lb != string(bz) && itemHadSig[item] {
					changedAfterSig = true
				}
				lastBytes[item] = string(bz)
				seenVal, seenKey := map[string]bool{}, map[string]bool{}
				for _, sd := range m.GetSignData() {
					addr, ok := c06Recover(bz, sd.Signature)
					if !ok || !strings.EqualFold(addr.Hex(), sd.ExternalAccountAddress) || !bytes.Equal(addr.Bytes(), sd.PublicKey) {
						t.Fatalf("%s: stored signature of %s does not verify against the message's current signing bytes %x under %s (recovered %s)\nhistory: %v", item, sd.ValAddress, bz, sd.ExternalAccountAddress, addr.Hex(), log)
					}
					if want := signedWith[item][sd.ValAddress.String()]; !strings.EqualFold(want, sd.ExternalAccountAddress) {
						t.Fatalf("%s: signature recorded for %s is under %s, its registered key when it signed was %q\nhistory: %v", item, sd.ValAddress, sd.ExternalAccountAddress, want, log)
					}
					if seenVal[sd.ValAddress.String()] || seenKey[strings.ToLower(sd.ExternalAccountAddress)] {
						t.Fatalf("%s: validator or key appears twice among the stored signatures", item)
					}
					seenVal[sd.ValAddress.String()], seenKey[strings.ToLower(sd.ExternalAccountAddress)] = true, true
				}
				if len(m.GetSignData()) > 0 {
					itemHadSig[item] = true
				}
			}
			batches, err := c.App.SkywayKeeper.GetOutgoingTxBatches(ctx)
			if err != nil {
				t.Fatalf("batches: %v", err)
			}
			for _, b := range batches {
				item := fmt.Sprintf("batch-%d", b.BatchNonce)
				if lb, ok := lastBytes[item]; ok && lb != string(b.BytesToSign) && itemHadSig[item] {
					changedAfterSig = true
				}
				lastBytes[item] = string(b.BytesToSign)
				// read straight from the store (every stored confirmation, whoever made it and whatever its validator's
				// standing is now), not through the keeper's per-batch helper
				var confs []skywaytypes.MsgConfirmBatch
				c.App.SkywayKeeper.IterateBatchConfirms(ctx, func(_ []byte, cf skywaytypes.MsgConfirmBatch) bool {
					if cf.Nonce == b.BatchNonce && strings.EqualFold(cf.TokenContract, b.TokenContract.GetAddress().Hex()) {
						confs = append(confs, cf)
					}
					return false
				})
				seenVal, seenKey := map[string]bool{}, map[string]bool{}
				for _, cf := range confs {
					sig, err := hex.DecodeString(cf.Signature)
					if err != nil {
						t.Fatalf("%s: stored confirmation has an undecodable signature", item)
					}
					addr, ok := c06Recover(b.BytesToSign, sig)
					if !ok || !strings.EqualFold(addr.Hex(), cf.EthSigner) {
						t.Fatalf("%s: stored confirmation of %s does not verify against the batch's current checkpoint %x under %s (recovered %s)\nhistory: %v", item, cf.Orchestrator, b.BytesToSign, cf.EthSigner, addr.Hex(), log)
					}
					if want := signedWith[item][cf.Orchestrator]; !strings.EqualFold(want, cf.EthSigner) {
						t.Fatalf("%s: confirmation of %s is under %s, its registered key when it signed was %q", item, cf.Orchestrator, cf.EthSigner, want)
					}
					if seenVal[cf.Orchestrator] || seenKey[strings.ToLower(cf.EthSigner)] {
						t.Fatalf("%s: validator or key appears twice among the stored confirmations (%v)\nhistory: %v", item, confs, log)
					}
					seenVal[cf.Orchestrator], seenKey[strings.ToLower(cf.EthSigner)] = true, true
				}
				if len(confs) > 0 {
					itemHadSig[item] = true
				}
			}
		}
		block := func(t *rapid.T, txs ...[]byte) []bool {
			res, err := c.Block(txs...)
			if err != nil {
				t.Fatalf("block: %v", err)
			}
			oks := make([]bool, len(txs))
			for i := range txs {
				oks[i] = res.TxResults[i].Code == 0
			}
			return oks
		}
		note := func(item, who, key string) {
			if signedWith[item] == nil {
				signedWith[item] = map[string]string{}
			}
			signedWith[item][who] = key
		}
		otherVal := func(i int) int { return (i + 1) % n }

		t.Repeat(map[string]func(*rapid.T){
			"executeJob": func(t *rapid.T) {
				job := rapid.SampledFrom([]string{"j1", "j1", "j2"}).Draw(t, "job")
				oks := block(t, c.MustSign(ub, &schedtypes.MsgExecuteJob{Metadata: chain.MD(ub), JobID: job}))
				log = append(log, fmt.Sprintf("exec(%s)=%v", job, oks[0]))
				checkAll(t)
			},
			"signMessage": func(t *rapid.T) {
				ms, _ := c.App.ConsensusKeeper.GetMessagesFromQueue(c.ReadCtx(), q, 0)
				if len(ms) == 0 {
					t.Skip("empty queue")
				}
				m := ms[rapid.IntRange(0, len(ms)-1).Draw(t, "msg")]
				i := rapid.IntRange(0, n-1).Draw(t, "val")
				kind := rapid.SampledFrom([]string{"valid", "valid", "valid", "garbage", "otherKey", "staleBytes", "claimOtherAddress", "retiredKey"}).Draw(t, "kind")
				bz, _ := m.GetBytesToSign(c.App.AppCodec())
				key := c.Vals[i].EthKeys[c06Chain]
				signedBy := curKey(i)
				var sig []byte
				if kind == "retiredKey" && len(retiredKeys[i]) == 0 {
					kind = "valid"
				}
				switch kind {
				case "retiredKey":
					// a key the validator has replaced since (the last snapshot may still list it): no longer its registered key
					old := retiredKeys[i][len(retiredKeys[i])-1]
					sig = chain.EthSign(old, bz)
					signedBy = chain.EthAddr(old).Hex()
				case "valid":
					sig = chain.EthSign(key, bz)
				case "garbage":
					sig = bytes.Repeat([]byte{0x11}, 65)
				case "otherKey":
					sig = chain.EthSign(c.Vals[otherVal(i)].EthKeys[c06Chain], bz)
				case "staleBytes":
					sig = chain.EthSign(key, ethcrypto.Keccak256(bz))
				case "claimOtherAddress":
					sig = chain.EthSign(key, bz)
					signedBy = curKey(otherVal(i))
				}
				item := fmt.Sprintf("msg-%d", m.GetId())
				oks := block(t, c.MustSign(c.Vals[i].Actor, &consensustypes.MsgAddMessagesSignatures{Metadata: chain.MD(c.Vals[i].Actor), SignedMessages: []*consensustypes.ConsensusMessageSignature{{Id: m.GetId(), QueueTypeName: q, Signature: sig, SignedByAddress: signedBy}}}))
				log = append(log, fmt.Sprintf("sign(v%d,%s,%s)=%v", i, item, kind, oks[0]))
				if oks[0] {
					if kind != "valid" {
						t.Fatalf("%s signature (%s) by v%d was accepted", kind, item, i)
					}
					if len(signedWith[item]) > 0 {
						for w, k := range signedWith[item] {
							_ = w
							if !strings.EqualFold(k, signedBy) && keyGen[i] > 0 {
								rekeyBetween = true
							}
						}
					}
					note(item, c.Vals[i].Val().String(), signedBy)
					sigCount++
				}
				checkAll(t)
			},
			// one request carrying signatures for messages of both chains. Variants: each under the right chain's key
			// (valid); or the second entry names - and is made with - the validator's account of the FIRST chain, which is
			// not its registered key on the second chain
			"signAcrossChains": func(t *rapid.T) {
				ms1, _ := c.App.ConsensusKeeper.GetMessagesFromQueue(c.ReadCtx(), q, 0)
				ms2, _ := c.App.ConsensusKeeper.GetMessagesFromQueue(c.ReadCtx(), q2, 0)
				if len(ms1) == 0 || len(ms2) == 0 {
					t.Skip("a queue is empty")
				}
				m1 := ms1[rapid.IntRange(0, len(ms1)-1).Draw(t, "msg1")]
				m2 := ms2[rapid.IntRange(0, len(ms2)-1).Draw(t, "msg2")]
				i := rapid.IntRange(0, n-1).Draw(t, "val")
				v := c.Vals[i]
				item1, item2 := fmt.Sprintf("msg-%d", m1.GetId()), fmt.Sprintf("msg-%d", m2.GetId())
				if signedWith[item1][v.Val().String()] != "" || signedWith[item2][v.Val().String()] != "" {
					t.Skip("already signed one of them")
				}
				bz1, _ := m1.GetBytesToSign(c.App.AppCodec())
				bz2, _ := m2.GetBytesToSign(c.App.AppCodec())
				k1, k2 := v.EthKeys[c06Chain], v.EthKeys[c06Chain2]
				a1, a2 := chain.EthAddr(k1).Hex(), chain.EthAddr(k2).Hex()
				wrongChainKey := rapid.Bool().Draw(t, "secondUnderFirstChainsKey")
				second := &consensustypes.ConsensusMessageSignature{Id: m2.GetId(), QueueTypeName: q2, Signature: chain.EthSign(k2, bz2), SignedByAddress: a2}
				if wrongChainKey {
					second = &consensustypes.ConsensusMessageSignature{Id: m2.GetId(), QueueTypeName: q2, Signature: chain.EthSign(k1, bz2), SignedByAddress: a1}
				}
				first := &consensustypes.ConsensusMessageSignature{Id: m1.GetId(), QueueTypeName: q, Signature: chain.EthSign(k1, bz1), SignedByAddress: a1}
				oks := block(t, c.MustSign(v.Actor, &consensustypes.MsgAddMessagesSignatures{Metadata: chain.MD(v.Actor), SignedMessages: []*consensustypes.ConsensusMessageSignature{first, second}}))
				log = append(log, fmt.Sprintf("signAcross(v%d,%s,%s,wrongChainKey=%v)=%v", i, item1, item2, wrongChainKey, oks[0]))
				if oks[0] {
					if wrongChainKey {
						t.Fatalf("a signature for %s (chain %s) made with v%d's %s account was accepted\nhistory: %v", item2, c06Chain2, i, c06Chain, log)
					}
					note(item1, v.Val().String(), a1)
					note(item2, v.Val().String(), a2)
					sigCount += 2
					acrossChains = true
				}
				checkAll(t)
			},
			"estimateMessage": func(t *rapid.T) {
				ms, _ := c.App.ConsensusKeeper.GetMessagesFromQueue(c.ReadCtx(), q, 0)
				var need []uint64
				for _, m := range ms {
					if m.GetRequireGasEstimation() && m.GetGasEstimate() == 0 {
						need = append(need, m.GetId())
					}
				}
				if len(need) == 0 {
					t.Skip("nothing to estimate")
				}
				id := need[rapid.IntRange(0, len(need)-1).Draw(t, "msg")]
				var txs [][]byte
				for _, v := range c.Vals {
					txs = append(txs, c.MustSign(v.Actor, &consensustypes.MsgAddMessageGasEstimates{Metadata: chain.MD(v.Actor), Estimates: []*consensustypes.MsgAddMessageGasEstimates_GasEstimate{{MsgId: id, QueueTypeName: q, Value: uint64(rapid.IntRange(21000, 90000).Draw(t, "gas")), EstimatedByAddress: chain.EthAddr(v.EthKeys[c06Chain]).Hex()}}}))
				}
				block(t, txs...)
				// an election discards the signatures collected so far
				elected := false
				after, _ := c.App.ConsensusKeeper.GetMessagesFromQueue(c.ReadCtx(), q, 0)
				for _, m := range after {
					if m.GetId() == id && m.GetGasEstimate() != 0 {
						elected = true
					}
				}
				if elected {
					delete(signedWith, fmt.Sprintf("msg-%d", id))
				}
				log = append(log, fmt.Sprintf("estimate(msg-%d)=elected:%v", id, elected))
				checkAll(t)
				// model follows the store: if signatures survived the election, checkAll above has already complained
			},
			"confirmBatch": func(t *rapid.T) {
				bs, _ := c.App.SkywayKeeper.GetOutgoingTxBatches(c.ReadCtx())
				if len(bs) == 0 {
					t.Skip("no batch")
				}
				b := bs[rapid.IntRange(0, len(bs)-1).Draw(t, "batch")]
				i := rapid.IntRange(0, n-1).Draw(t, "val")
				kind := rapid.SampledFrom([]string{"valid", "valid", "valid", "garbage", "otherKey", "staleBytes"}).Draw(t, "kind")
				key := c.Vals[i].EthKeys[c06Chain]
				var sig []byte
				switch kind {
				case "valid":
					sig = chain.EthSign(key, b.BytesToSign)
				case "garbage":
					sig = bytes.Repeat([]byte{0x22}, 65)
				case "otherKey":
					sig = chain.EthSign(c.Vals[otherVal(i)].EthKeys[c06Chain], b.BytesToSign)
				case "staleBytes":
					sig = chain.EthSign(key, ethcrypto.Keccak256(b.BytesToSign))
				}
				item := fmt.Sprintf("batch-%d", b.BatchNonce)
				oks := block(t, c.MustSign(c.Vals[i].Actor, &skywaytypes.MsgConfirmBatch{Metadata: chain.MD(c.Vals[i].Actor), Nonce: b.BatchNonce, TokenContract: c06ERC20, EthSigner: curKey(i), Orchestrator: c.Vals[i].Addr.String(), Signature: hex.EncodeToString(sig)}))
				log = append(log, fmt.Sprintf("confirm(v%d,%s,%s)=%v", i, item, kind, oks[0]))
				if oks[0] {
					if kind != "valid" {
						t.Fatalf("%s confirmation (%s) by v%d was accepted", kind, item, i)
					}
					note(item, c.Vals[i].Addr.String(), curKey(i))
					sigCount++
				}
				checkAll(t)
			},
			"estimateBatch": func(t *rapid.T) {
				bs, _ := c.App.SkywayKeeper.GetOutgoingTxBatches(c.ReadCtx())
				if len(bs) == 0 || bs[0].GasEstimate > 0 {
					t.Skip("no batch awaiting an estimate")
				}
				b := bs[0]
				var txs [][]byte
				for _, v := range c.Vals {
					txs = append(txs, c.MustSign(v.Actor, &skywaytypes.MsgEstimateBatchGas{Metadata: chain.MD(v.Actor), Nonce: b.BatchNonce, TokenContract: c06ERC20, EthSigner: chain.EthAddr(v.EthKeys[c06Chain]).Hex(), Estimate: 60000}))
				}
				block(t, txs...)
				// an election re-issues the checkpoint and discards the confirmations collected so far
				elected := false
				after, _ := c.App.SkywayKeeper.GetOutgoingTxBatches(c.ReadCtx())
				for _, x := range after {
					if x.BatchNonce == b.BatchNonce && x.GasEstimate > 0 {
						elected = true
					}
				}
				if elected {
					delete(signedWith, fmt.Sprintf("batch-%d", b.BatchNonce))
				}
				log = append(log, fmt.Sprintf("estimateBatch(%d)=elected:%v", b.BatchNonce, elected))
				checkAll(t)
			},
			// a validator drops out of the bonded set (fixture: jailed) while its signatures and confirmations are stored:
			// elections that follow must still discard them with everybody else's
			"jailOne": func(t *rapid.T) {
				if jailedOne || n < 4 {
					t.Skip("one validator per case, and two thirds must remain")
				}
				i := rapid.IntRange(0, n-1).Draw(t, "val")
				if err := c.App.ValsetKeeper.Jail(c.Ctx(), c.Vals[i].Val(), "verif fixture"); err != nil {
					t.Skip("not jailable")
				}
				jailedOne = true
				block(t)
				block(t)
				for item, who := range signedWith {
					if strings.HasPrefix(item, "batch-") && who[c.Vals[i].Addr.String()] != "" {
						jailedConfirmer = true
					}
				}
				log = append(log, fmt.Sprintf("jail(v%d)", i))
				checkAll(t)
			},
			"reRegisterKey": func(t *rapid.T) {
				i := rapid.IntRange(0, n-1).Draw(t, "val")
				handOver := rapid.IntRange(0, 2).Draw(t, "takeOverFreedKey") == 0
				v := c.Vals[i]
				old := v.EthKeys[c06Chain]
				keyGen[i]++
				nk := chain.EthKeyFor(fmt.Sprintf("%s/v%d/rekey/%d", salt, i, keyGen[i]))
				if handOver && freedKeys != nil && len(freedKeys) > 0 {
					nk = freedKeys[len(freedKeys)-1]
				}
				ea := chain.EthAddr(nk)
				oks := block(t, c.MustSign(v.Actor, &vtypes.MsgAddExternalChainInfoForValidator{Metadata: chain.MD(v.Actor), ChainInfos: []*vtypes.ExternalChainInfo{{ChainType: "evm", ChainReferenceID: c06Chain, Address: ea.Hex(), Pubkey: ea.Bytes()},
					{ChainType: "evm", ChainReferenceID: c06Chain2, Address: chain.EthAddr(v.EthKeys[c06Chain2]).Hex(), Pubkey: chain.EthAddr(v.EthKeys[c06Chain2]).Bytes()}}})) // the message replaces the whole set: the second chain's account is kept
				log = append(log, fmt.Sprintf("rekey(v%d,%s,handOver=%v)=%v", i, ea.Hex()[:10], handOver, oks[0]))
				if oks[0] {
					v.EthKeys[c06Chain] = nk
					freedKeys = append(freedKeys, old)
					retiredKeys[i] = append(retiredKeys[i], old)
				}
				checkAll(t)
			},
			// a relayer re-prices a chain while messages assigned to it (signed or not, with or without an elected estimate)
			// wait in the queue: whatever that does to their fees, stored signatures must keep matching the stored bytes
			"changeRelayerFee": func(t *rapid.T) {
				v := c.Vals[rapid.IntRange(0, n-1).Draw(t, "val")]
				mult := rapid.SampledFrom([]string{"1.1", "2", "3.7", "0.5"}).Draw(t, "mult")
				ref := rapid.SampledFrom([]string{c06Chain, c06Chain2}).Draw(t, "chain")
				oks := block(t, c.MustSign(v.Actor, &treasurytypes.MsgUpsertRelayerFee{Metadata: chain.MD(v.Actor), FeeSetting: &treasurytypes.RelayerFeeSetting{ValAddress: v.Val().String(),
					Fees: []treasurytypes.RelayerFeeSetting_FeeSetting{{ChainReferenceId: ref, Multiplicator: sdkmath.LegacyMustNewDecFromStr(mult)}}}}))
				log = append(log, fmt.Sprintf("fee(v%d,%s,%s)=%v", v.Index, ref, mult, oks[0]))
				block(t)
				checkAll(t)
			},
			"advance": func(t *rapid.T) {
				block(t)
				checkAll(t)
			},
		})
		labels := []string{fmt.Sprintf("signatures=%d", min(sigCount, 8))}
		if changedAfterSig {
			labels = append(labels, "signingBytesChangedAfterSignature")
		}
		if rekeyBetween {
			labels = append(labels, "rekeyBetweenSignatures")
		}
		if acrossChains {
			labels = append(labels, "oneRequestSignedForTwoChains")
		}
		if jailedConfirmer {
			labels = append(labels, "confirmerLeftTheBondedSet")
		}
		evid.Case(t.Name(), strings.Join(log, " "), changedAfterSig || rekeyBetween, labels, func() any { return log })
		freedKeys = nil
	})
}

// keys given up by a validator in the current case (so that another validator may register them: key hand-over)
var freedKeys []*ecdsa.PrivateKey
