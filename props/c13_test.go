package props

// C13 — validators are never punished for doing what the chain asked.
// (a) bad-signature evidence jails only for a signature by the validator's registered key over a checkpoint
//     Paloma never issued; any signature over an issued checkpoint (including the re-issued one after a gas
//     estimate election) can never be used against its signer;
// (b) pruning an undelivered / contested message never jails a validator that supplied evidence, and jails
//     nobody when less than 10 % of snapshot shares attested.

import (
	"crypto/ecdsa"
	"encoding/hex"
	"fmt"
	"math/big"
	"strings"
	"testing"

	sdkmath "cosmossdk.io/math"
	codectypes "github.com/cosmos/cosmos-sdk/codec/types"
	sdk "github.com/cosmos/cosmos-sdk/types"
	"github.com/ethereum/go-ethereum/common"
	ethcrypto "github.com/ethereum/go-ethereum/crypto"
	"pgregory.net/rapid"

	consensustypes "github.com/palomachain/paloma/v2/x/consensus/types"
	evmtypes "github.com/palomachain/paloma/v2/x/evm/types"
	schedtypes "github.com/palomachain/paloma/v2/x/scheduler/types"
	skywaytypes "github.com/palomachain/paloma/v2/x/skyway/types"
	vtypes "github.com/palomachain/paloma/v2/x/valset/types"

	"verif/harness/cabi"
	"verif/harness/chain"
	"verif/harness/evid"
	"verif/harness/gen"
)

const c13Chain = "eth-main"
const c13ERC20 = "0x00000000000000000000000000000000000000E1"

type c13Conf struct {
	val           *chain.Validator
	sig           []byte
	subject       skywaytypes.OutgoingTxBatch
	checkpoint    string
	afterElection bool
}

func c13Jailed(c *chain.Chain) map[int]bool {
	out := map[int]bool{}
	ctx := c.ReadCtx()
	for _, v := range c.Vals {
		val, err := c.App.StakingKeeper.GetValidator(ctx, v.Val())
		if err == nil && val.Jailed {
			out[v.Index] = true
		}
	}
	return out
}

func TestC13_EvidenceOnlyForNeverIssuedCheckpoints(t *testing.T) {
	evid.Check(t, 60, 300, func(t *rapid.T) {
		salt := fmt.Sprintf("c13-%d", rapid.IntRange(0, 1<<30).Draw(t, "salt"))
		n := rapid.IntRange(4, 6).Draw(t, "nVals")
		stakes := make([]int64, n)
		for i := range stakes {
			stakes[i] = int64(rapid.IntRange(80, 120).Draw(t, "stake")) * 1_000_000
		}
		c, err := chain.New(chain.Options{Salt: salt, Stakes: stakes, InitialHeight: 44, Users: []string{"ub", "mallory"}, EvmChains: []chain.EvmChain{{RefID: c13Chain, ChainID: 1}}})
		if err != nil {
			t.Fatalf("boot: %v", err)
		}
		defer c.Close()
		if err := c.Ready(); err != nil {
			t.Fatalf("ready: %v", err)
		}
		ub, mallory := c.Users["ub"], c.Users["mallory"]
		tok, err := c.SetupToken(ub, "tok", sdkmath.NewInt(1_000_000_000), c13Chain, c13ERC20)
		if err != nil {
			t.Fatalf("token: %v", err)
		}
		issued := map[string]bool{} // hex checkpoint -> seen in a stored batch
		elected := map[uint64]bool{}
		var confs []c13Conf
		var log []string
		replayAfterElection, forged, jailedByForgery := 0, 0, 0
		retired := map[int][]*ecdsa.PrivateKey{} // remote keys a validator had registered earlier and replaced since
		rotations, forgedWithRetired := 0, 0
		declared := 0
		skyNonce := uint64(0)

		batches := func() []skywaytypes.InternalOutgoingTxBatch {
			bs, err := c.App.SkywayKeeper.GetOutgoingTxBatches(c.ReadCtx())
			if err != nil {
				t.Fatalf("batches: %v", err)
			}
			return bs
		}
		observe := func() {
			for _, b := range batches() {
				issued[hex.EncodeToString(b.BytesToSign)] = true
				if own := c13Checkpoint(t, b.ToExternal()); hex.EncodeToString(own) != hex.EncodeToString(b.BytesToSign) {
					t.Fatalf("batch %d is stored with signing bytes %x, its content stands for checkpoint %x", b.BatchNonce, b.BytesToSign, own)
				}
				if b.GasEstimate > 0 {
					elected[b.BatchNonce] = true
				}
			}
		}
		block := func(t *rapid.T, txs ...[]byte) []bool {
			res, err := c.Block(txs...)
			if err != nil {
				t.Fatalf("block: %v", err)
			}
			observe()
			oks := make([]bool, len(txs))
			for i := range txs {
				oks[i] = res.TxResults[i].Code == 0
			}
			return oks
		}
		send := func(t *rapid.T) {
			amt := int64(rapid.IntRange(1, 1000).Draw(t, "amount"))
			oks := block(t, c.MustSign(ub, &skywaytypes.MsgSendToRemote{Metadata: chain.MD(ub), EthDest: "0x00000000000000000000000000000000000000d1", Amount: sdk.NewCoin(tok.Denom, sdkmath.NewInt(amt)), ChainReferenceId: c13Chain}))
			log = append(log, fmt.Sprintf("send(%d)=%v", amt, oks[0]))
		}
		toNext50 := func(t *rapid.T) {
			target := (c.H/50 + 1) * 50
			for c.H <= target {
				block(t)
			}
			log = append(log, fmt.Sprintf("advanceTo(%d) batches=%d", target, len(batches())))
		}
		// first batch
		send(t)
		toNext50(t)
		live := func() []*chain.Validator {
			j := c13Jailed(c)
			var out []*chain.Validator
			for _, v := range c.Vals {
				if !j[v.Index] {
					out = append(out, v)
				}
			}
			return out
		}
		// evidence submission and the oracle
		submitEvidence := func(t *rapid.T, who chain.Actor, subj skywaytypes.OutgoingTxBatch, sig []byte, what string) {
			any, err := codectypes.NewAnyWithValue(&subj)
			if err != nil {
				t.Fatalf("any: %v", err)
			}
			// the digest the subject stands for, computed by the harness from the batch's content (not by the code under
			// test, and not taken from the subject's own bytes_to_sign field, which anybody can fill as they like)
			cp := c13Checkpoint(t, subj)
			before := c13Jailed(c)
			msg := &skywaytypes.MsgSubmitBadSignatureEvidence{Metadata: chain.MD(who), Sender: who.Addr.String(), Subject: any, Signature: hex.EncodeToString(sig), ChainReferenceId: c13Chain}
			oks := block(t, c.MustSign(who, msg))
			after := c13Jailed(c)
			var newly []int
			for i := range after {
				if !before[i] {
					newly = append(newly, i)
				}
			}
			log = append(log, fmt.Sprintf("%s by %s accepted=%v jailed=%v", what, who.Name, oks[0], newly))
			if len(newly) > 0 && issued[hex.EncodeToString(cp)] {
				t.Fatalf("validator(s) %v jailed by evidence over checkpoint %x, which Paloma itself issued for signing (%s)\nhistory: %v", newly, cp, what, log)
			}
			if oks[0] && issued[hex.EncodeToString(cp)] {
				t.Fatalf("evidence over an issued checkpoint %x was accepted (%s)\nhistory: %v", cp, what, log)
			}
			for _, i := range newly {
				// the signature must be by that validator's registered key
				addr, err := skywaytypes.EthAddressFromSignature(cp, append([]byte(nil), sig...))
				if err != nil || addr.GetAddress() != chain.EthAddr(c.Vals[i].EthKeys[c13Chain]) {
					t.Fatalf("validator %d jailed by a signature that is not by its registered key", i)
				}
			}
			if len(newly) > 0 {
				jailedByForgery++
			}
		}

		t.Repeat(map[string]func(*rapid.T){
			"send": send,
			"toNext50": func(t *rapid.T) {
				if rapid.IntRange(0, 2).Draw(t, "really?") != 0 {
					t.Skip("not now")
				}
				toNext50(t)
			},
			"estimate": func(t *rapid.T) {
				bs := batches()
				lv := live()
				if len(bs) == 0 || len(lv) == 0 {
					t.Skip("no batch")
				}
				b := bs[rapid.IntRange(0, len(bs)-1).Draw(t, "batch")]
				k := len(lv)
				if rapid.Bool().Draw(t, "partial") {
					k = rapid.IntRange(1, len(lv)).Draw(t, "howMany")
				}
				var txs [][]byte
				for _, v := range lv[:k] {
					txs = append(txs, c.MustSign(v.Actor, &skywaytypes.MsgEstimateBatchGas{Metadata: chain.MD(v.Actor), Nonce: b.BatchNonce, TokenContract: c13ERC20, EthSigner: chain.EthAddr(v.EthKeys[c13Chain]).Hex(), Estimate: uint64(rapid.IntRange(21000, 500000).Draw(t, "gas"))}))
				}
				oks := block(t, txs...)
				block(t)
				log = append(log, fmt.Sprintf("estimate(batch %d, %d validators)=%v elected=%v", b.BatchNonce, k, oks, elected[b.BatchNonce]))
			},
			"confirm": func(t *rapid.T) {
				bs := batches()
				lv := live()
				if len(bs) == 0 || len(lv) == 0 {
					t.Skip("no batch")
				}
				b := bs[rapid.IntRange(0, len(bs)-1).Draw(t, "batch")]
				v := lv[rapid.IntRange(0, len(lv)-1).Draw(t, "val")]
				sig := chain.EthSign(v.EthKeys[c13Chain], b.BytesToSign)
				oks := block(t, c.MustSign(v.Actor, &skywaytypes.MsgConfirmBatch{Metadata: chain.MD(v.Actor), Nonce: b.BatchNonce, TokenContract: c13ERC20, EthSigner: chain.EthAddr(v.EthKeys[c13Chain]).Hex(), Orchestrator: v.Addr.String(), Signature: hex.EncodeToString(sig)}))
				log = append(log, fmt.Sprintf("confirm(v%d, batch %d, estimateElected=%v)=%v", v.Index, b.BatchNonce, b.GasEstimate > 0, oks[0]))
				if oks[0] {
					confs = append(confs, c13Conf{val: v, sig: sig, subject: b.ToExternal(), checkpoint: hex.EncodeToString(b.BytesToSign), afterElection: b.GasEstimate > 0})
				}
			},
			"replayConfirmation": func(t *rapid.T) {
				if len(confs) == 0 {
					t.Skip("no confirmations yet")
				}
				cf := confs[rapid.IntRange(0, len(confs)-1).Draw(t, "conf")]
				subj := cf.subject
				// re-render the subject with fields that are not covered by the checkpoint changed
				switch rapid.IntRange(0, 3).Draw(t, "rendering") {
				case 1:
					subj.PalomaBlockCreated += 7
				case 2:
					subj.Assignee = "somebody-else"
					subj.BytesToSign = nil
				case 3:
					subj.ChainReferenceId = "ignored-by-handler"
				}
				who := mallory
				if rapid.Bool().Draw(t, "byValidator") {
					if lv := live(); len(lv) > 0 {
						who = lv[rapid.IntRange(0, len(lv)-1).Draw(t, "which")].Actor
					}
				}
				if cf.afterElection {
					replayAfterElection++
				}
				submitEvidence(t, who, subj, cf.sig, fmt.Sprintf("replay of v%d's genuine confirmation of batch %d (afterElection=%v)", cf.val.Index, subj.BatchNonce, cf.afterElection))
			},
			"forgedEvidence": func(t *rapid.T) {
				bs := batches()
				lv := live()
				if len(bs) == 0 || len(lv) < 3 || forged >= 3 {
					t.Skip("not now")
				}
				b := bs[0].ToExternal()
				v := lv[rapid.IntRange(0, len(lv)-1).Draw(t, "val")]
				// prefer a validator that has replaced its key, if there is one
				for _, x := range lv {
					if len(retired[x.Index]) > 0 && rapid.IntRange(0, 3).Draw(t, "preferRotated") > 0 {
						v = x
						break
					}
				}
				switch rapid.IntRange(0, 2).Draw(t, "alter") {
				case 0:
					b.Transactions[0].Erc20Token.Amount = b.Transactions[0].Erc20Token.Amount.Add(sdkmath.NewInt(1))
				case 1:
					b.BatchNonce += 1000
				default:
					b.AssigneeRemoteAddress = chain.EthAddr(chain.EthKeyFor("c13-other-relayer")).Bytes()
				}
				cp := c13Checkpoint(t, b)
				if issued[hex.EncodeToString(cp)] {
					t.Skip("altered batch happens to be issued")
				}
				forged++
				key, which := v.EthKeys[c13Chain], "registered"
				if rk := retired[v.Index]; len(rk) > 0 && rapid.IntRange(0, 3).Draw(t, "retiredKey") > 0 {
					// a key the validator has replaced (e.g. because it leaked) is nobody's registered key any more
					key, which = rk[rapid.IntRange(0, len(rk)-1).Draw(t, "which")], "retired"
					forgedWithRetired++
				}
				submitEvidence(t, mallory, b, chain.EthSign(key, cp), fmt.Sprintf("forged batch signed with v%d's %s key", v.Index, which))
			},
			// a batch Paloma did issue, re-rendered with its bytes_to_sign field (which the checkpoint does not cover and
			// the submitter fills freely) set to some other 32-byte digest, together with a validator's signature over that
			// digest - e.g. a signature the validator made for an entirely different purpose. The subject is an issued batch:
			// nobody may be jailed over it
			"declaredDigest": func(t *rapid.T) {
				bs := batches()
				lv := live()
				if len(bs) == 0 || len(lv) < 3 {
					t.Skip("not now")
				}
				b := bs[rapid.IntRange(0, len(bs)-1).Draw(t, "batch")].ToExternal()
				v := lv[rapid.IntRange(0, len(lv)-1).Draw(t, "val")]
				d := ethcrypto.Keccak256([]byte(fmt.Sprintf("another digest %d", rapid.IntRange(0, 1<<20).Draw(t, "digest"))))
				b.BytesToSign = d
				declared++
				submitEvidence(t, mallory, b, chain.EthSign(v.EthKeys[c13Chain], d), fmt.Sprintf("issued batch %d with a declared bytes_to_sign and v%d's signature over it", b.BatchNonce, v.Index))
			},
			// a validator replaces its remote account (new key) between two snapshots
			"rotateKey": func(t *rapid.T) {
				lv := live()
				if len(lv) == 0 || rotations >= 2 {
					t.Skip("not now")
				}
				v := lv[rapid.IntRange(0, len(lv)-1).Draw(t, "val")]
				rotations++
				nk := chain.EthKeyFor(fmt.Sprintf("%s/rotated/%d/%d", salt, v.Index, rotations))
				ea := chain.EthAddr(nk)
				oks := block(t, c.MustSign(v.Actor, &vtypes.MsgAddExternalChainInfoForValidator{Metadata: chain.MD(v.Actor), ChainInfos: []*vtypes.ExternalChainInfo{{ChainType: "evm", ChainReferenceID: c13Chain, Address: ea.Hex(), Pubkey: ea.Bytes()}}}))
				if oks[0] {
					retired[v.Index] = append(retired[v.Index], v.EthKeys[c13Chain])
					v.EthKeys[c13Chain] = nk
				}
				log = append(log, fmt.Sprintf("rotateKey(v%d)=%v", v.Index, oks[0]))
			},
			"timeoutAndRebuild": func(t *rapid.T) {
				if len(batches()) == 0 || rapid.IntRange(0, 3).Draw(t, "really?") != 0 {
					t.Skip("not now")
				}
				for i := 0; i < 102; i++ {
					block(t)
				}
				log = append(log, fmt.Sprintf("advance(102) batches=%d", len(batches())))
			},
			"executed": func(t *rapid.T) {
				bs := batches()
				lv := live()
				if len(bs) == 0 || len(lv) == 0 {
					t.Skip("no batch")
				}
				b := bs[len(bs)-1]
				skyNonce++
				var txs [][]byte
				for _, v := range lv {
					txs = append(txs, c.MustSign(v.Actor, &skywaytypes.MsgBatchSendToRemoteClaim{Metadata: chain.MD(v.Actor), Orchestrator: v.Addr.String(), EventNonce: skyNonce, SkywayNonce: skyNonce, EthBlockHeight: 100 + skyNonce, BatchNonce: b.BatchNonce, TokenContract: c13ERC20, ChainReferenceId: c13Chain, CompassId: "compass-1"}))
				}
				oks := block(t, txs...)
				block(t)
				log = append(log, fmt.Sprintf("executedClaim(batch %d)=%v left=%d", b.BatchNonce, oks, len(batches())))
			},
		})
		trace := strings.Join(log, " | ")
		labels := []string{fmt.Sprintf("confs=%d", min(len(confs), 6))}
		if replayAfterElection > 0 {
			labels = append(labels, "replayAfterElection")
		}
		if forged > 0 {
			labels = append(labels, "forged")
		}
		if declared > 0 {
			labels = append(labels, "issuedBatchWithDeclaredDigest")
		}
		if forgedWithRetired > 0 {
			labels = append(labels, "forgedWithRetiredKey")
		}
		if jailedByForgery > 0 {
			labels = append(labels, "forgeryJailed")
		}
		evid.Case(t.Name(), trace, replayAfterElection > 0, labels, func() any { return log })
	})
}

// (b) pruning
func TestC13_PruneNeverJailsEvidenceGivers(t *testing.T) {
	evid.Check(t, 12, 60, func(t *rapid.T) {
		salt := fmt.Sprintf("c13p-%d", rapid.IntRange(0, 1<<30).Draw(t, "salt"))
		n := rapid.IntRange(4, 7).Draw(t, "nVals")
		shares := gen.Shares(t, n, "stake")
		stakes := make([]int64, n)
		total := new(big.Int)
		boundary := rapid.IntRange(0, 2).Draw(t, "tenPercentBoundary") == 0
		if boundary {
			// validator 0 holds exactly floor(total/10) (+0/+1 ugrain) of a total that is not a multiple of 10
			n = rapid.IntRange(5, 7).Draw(t, "nValsBoundary")
			stakes = make([]int64, n)
			a := int64(rapid.IntRange(20, 60).Draw(t, "tenth")) * 1_000_000
			r := int64(rapid.IntRange(1, 9).Draw(t, "remainder"))
			rest := 9*a + r
			stakes[0] = a + int64(rapid.IntRange(0, 1).Draw(t, "plusOne"))
			for i := 1; i < n; i++ {
				stakes[i] = rest / int64(n-1)
			}
			stakes[n-1] += rest - (rest/int64(n-1))*int64(n-1)
			for _, st := range stakes {
				total.Add(total, big.NewInt(st))
			}
		} else {
			for i, s := range shares {
				// keep stakes in a range where nobody exceeds the 25 % jailing protection too often; scale to >= 1e6
				v := new(big.Int).Mod(s, big.NewInt(400)).Int64() + 20
				stakes[i] = v * 1_000_000
				total.Add(total, big.NewInt(stakes[i]))
			}
		}
		c, err := chain.New(chain.Options{Salt: salt, Stakes: stakes, InitialHeight: 44, Users: []string{"ub"}, EvmChains: []chain.EvmChain{{RefID: c13Chain, ChainID: 1}}})
		if err != nil {
			t.Fatalf("boot: %v", err)
		}
		defer c.Close()
		if err := c.Ready(); err != nil {
			t.Fatalf("ready: %v", err)
		}
		ub := c.Users["ub"]
		def := []byte(`{"abi":"[]","address":"0x00000000000000000000000000000000000000aa"}`)
		pl := []byte(`{"hexPayload":"0xdeadbeef"}`)
		res, err := c.Block(c.MustSign(ub, &schedtypes.MsgCreateJob{Metadata: chain.MD(ub), Job: &schedtypes.Job{ID: "j1", Routing: schedtypes.Routing{ChainType: "evm", ChainReferenceID: c13Chain}, Definition: def, Payload: pl}}))
		if err != nil || res.TxResults[0].Code != 0 {
			t.Fatalf("create job: %v %s", err, res.TxResults[0].Log)
		}
		res, err = c.Block(c.MustSign(ub, &schedtypes.MsgExecuteJob{Metadata: chain.MD(ub), JobID: "j1"}))
		if err != nil || res.TxResults[0].Code != 0 {
			t.Fatalf("execute job: %v %s", err, res.TxResults[0].Log)
		}
		q := chain.TurnstoneQueue(c13Chain)
		var msgID uint64
		var assignee string
		qms, _ := c.App.ConsensusKeeper.GetMessagesFromQueue(c.ReadCtx(), q, 0)
		for _, qm := range qms {
			cm, _ := qm.ConsensusMsg(c.App.AppCodec())
			if em, ok := cm.(*evmtypes.Message); ok {
				if _, ok := em.Action.(*evmtypes.Message_SubmitLogicCall); ok {
					msgID, assignee = qm.GetId(), em.Assignee
				}
			}
		}
		if msgID == 0 {
			t.Fatalf("no logic call queued")
		}
		var relayer *chain.Validator
		for _, v := range c.Vals {
			if v.Val().String() == assignee {
				relayer = v
			}
		}
		// delivery attempt reported (public access data or error data), then a contested set of evidence
		report := rapid.SampledFrom([]string{"public", "error"}).Draw(t, "report")
		var rep sdk.Msg
		if report == "public" {
			rep = &consensustypes.MsgSetPublicAccessData{Metadata: chain.MD(relayer.Actor), MessageID: msgID, QueueTypeName: q, Data: []byte{1, 2, 3}, ValsetID: 1}
		} else {
			rep = &consensustypes.MsgSetErrorData{Metadata: chain.MD(relayer.Actor), MessageID: msgID, QueueTypeName: q, Data: []byte("failed")}
		}
		res, err = c.Block(c.MustSign(relayer.Actor, rep))
		if err != nil || res.TxResults[0].Code != 0 {
			t.Fatalf("report: %v %s", err, res.TxResults[0].Log)
		}
		// evidence distribution: each validator none / proof A / proof B / ... such that no group reaches 2/3
		gave := map[int]bool{}
		group := map[int]int{}
		resubmitted := false
		var txs [][]byte
		for _, v := range c.Vals {
			g := rapid.IntRange(-1, 2).Draw(t, "evidenceGroup")
			if boundary {
				g = -1
				if v.Index == 0 {
					g = 0
				}
			}
			if g < 0 {
				continue
			}
			proof, _ := codectypes.NewAnyWithValue(&evmtypes.SmartContractExecutionErrorProof{ErrorMessage: fmt.Sprintf("err-%d", g)})
			txs = append(txs, c.MustSign(v.Actor, &consensustypes.MsgAddEvidence{Metadata: chain.MD(v.Actor), Proof: proof, MessageID: msgID, QueueTypeName: q}))
			gave[v.Index], group[v.Index] = true, g
		}
		// make sure no group holds 2/3 (otherwise the message is attested and removed, which is not the pruning case)
		sums := map[int]*big.Int{}
		attested := new(big.Int)
		for i, g := range group {
			if sums[g] == nil {
				sums[g] = new(big.Int)
			}
			sums[g].Add(sums[g], big.NewInt(stakes[i]))
			attested.Add(attested, big.NewInt(stakes[i]))
		}
		for _, s := range sums {
			if new(big.Int).Mul(s, big.NewInt(3)).Cmp(new(big.Int).Mul(total, big.NewInt(2))) >= 0 {
				t.Skip("a group reaches consensus; not a pruning case")
			}
		}
		res, err = c.Block(txs...)
		if err != nil {
			t.Fatalf("evidence block: %v", err)
		}
		for i, r := range res.TxResults {
			if r.Code != 0 {
				t.Fatalf("evidence tx %d rejected: %s", i, r.Log)
			}
		}
		// some of the evidence-givers supply their evidence (the same proof) once more in a later block: everybody who
		// gave evidence stays on record
		if rapid.Bool().Draw(t, "resubmissions") {
			var again [][]byte
			for _, v := range c.Vals {
				if gave[v.Index] && rapid.Bool().Draw(t, "again") {
					proof, _ := codectypes.NewAnyWithValue(&evmtypes.SmartContractExecutionErrorProof{ErrorMessage: fmt.Sprintf("err-%d", group[v.Index])})
					again = append(again, c.MustSign(v.Actor, &consensustypes.MsgAddEvidence{Metadata: chain.MD(v.Actor), Proof: proof, MessageID: msgID, QueueTypeName: q}))
					resubmitted = true
				}
			}
			if len(again) > 0 {
				if _, err := c.Block(again...); err != nil {
					t.Fatalf("evidence block: %v", err)
				}
			}
		}
		// keep validators alive and advance past the pruning age to the next multiple of 50
		added := c.H
		before := c13Jailed(c)
		for c.H-added <= 302 || (c.H-1)%50 != 0 {
			if _, err := c.Block(); err != nil {
				t.Fatalf("block: %v", err)
			}
			if len(c13Jailed(c)) != len(before) {
				break
			}
		}
		after := c13Jailed(c)
		still, _ := c.App.ConsensusKeeper.GetMessagesFromQueue(c.ReadCtx(), q, 0)
		pruned := true
		for _, m := range still {
			if m.GetId() == msgID {
				pruned = false
			}
		}
		var newly []int
		for i := range after {
			if !before[i] {
				newly = append(newly, i)
			}
		}
		for _, i := range newly {
			if gave[i] {
				t.Fatalf("validator %d supplied evidence for message %d and was jailed when it was pruned (evidence groups %v, stakes %v)", i, msgID, group, stakes)
			}
		}
		tenth := new(big.Int).Mul(attested, big.NewInt(10)).Cmp(total) < 0
		if tenth && len(newly) > 0 {
			t.Fatalf("only %s of %s shares attested (<10%%) but validators %v were jailed", attested, total, newly)
		}
		pct := new(big.Int).Div(new(big.Int).Mul(attested, big.NewInt(100)), total).Int64()
		band := "10-66%"
		if pct < 10 {
			band = "<10%"
		} else if pct > 66 {
			band = ">66% split"
		}
		labels := []string{"attested " + band, fmt.Sprintf("jailed=%d", len(newly)), fmt.Sprintf("pruned=%v", pruned)}
		if boundary {
			labels = append(labels, "tenPercentBoundary")
		}
		if resubmitted {
			labels = append(labels, "evidenceResubmitted")
		}
		evid.Case(t.Name(), fmt.Sprintf("stakes=%v groups=%v report=%s resubmitted=%v", stakes, group, report, resubmitted), pruned && len(gave) > 0 && len(gave) < n, labels, func() any {
			return map[string]any{"stakes": stakes, "evidenceGroupByValidator": group, "report": report, "attestedPercent": pct, "jailed": newly}
		})
	})
}

// c13Checkpoint: the batch checkpoint as compass defines it, from the harness's own encoder.
func c13Checkpoint(t *rapid.T, b skywaytypes.OutgoingTxBatch) []byte {
	args := cabi.BatchArgs{}
	for _, tx := range b.Transactions {
		amt, ok := new(big.Int).SetString(tx.Erc20Token.Amount.String(), 10)
		if !ok {
			t.Fatalf("amount %v", tx.Erc20Token.Amount)
		}
		args.Receiver = append(args.Receiver, common.HexToAddress(tx.DestAddress))
		args.Amount = append(args.Amount, amt)
	}
	cp, err := cabi.BatchCheckpoint(common.HexToAddress(b.TokenContract), args, new(big.Int).SetUint64(b.BatchNonce), "compass-1", new(big.Int).SetUint64(b.BatchTimeout), common.BytesToAddress(b.AssigneeRemoteAddress), new(big.Int).SetUint64(b.GasEstimate))
	if err != nil {
		t.Fatalf("checkpoint: %v", err)
	}
	return cp
}
