package props

// C16 — token factory: admin-only control, supply == mints - burns, own namespace, no re-creation,
// non-factory denoms untouchable.  Stateful model over real transactions on a full chain.

import (
	"bytes"
	"fmt"
	bankkeeper "github.com/cosmos/cosmos-sdk/x/bank/keeper"
	tfbindings "github.com/palomachain/paloma/v2/x/tokenfactory/bindings"
	tfbindingstypes "github.com/palomachain/paloma/v2/x/tokenfactory/bindings/types"
	"math/big"
	"sort"
	"strings"
	"testing"

	sdkmath "cosmossdk.io/math"
	sdk "github.com/cosmos/cosmos-sdk/types"
	banktypes "github.com/cosmos/cosmos-sdk/x/bank/types"
	"pgregory.net/rapid"

	tftypes "github.com/palomachain/paloma/v2/x/tokenfactory/types"

	"verif/harness/chain"
	"verif/harness/evid"
)

type c16Denom struct {
	admin  string
	supply *big.Int
	meta   string // Name field last set by a successful SetDenomMetadata ("" initially)
}

func bigOf(i sdkmath.Int) *big.Int { return i.BigInt() }

func TestC16_TokenFactoryModel(t *testing.T) {
	evid.Check(t, 150, 700, func(t *rapid.T) {
		salt := fmt.Sprintf("c16-%d", rapid.IntRange(0, 1<<30).Draw(t, "salt"))
		users := []string{"u0", "u1", "u2"}
		extra := map[string]sdk.Coins{}
		c, err := chain.New(chain.Options{Salt: salt, Stakes: []int64{5_000_000}, Users: users, UserBalance: 1_000_000_000})
		if err != nil {
			t.Fatalf("boot: %v", err)
		}
		_ = extra
		defer c.Close()
		if _, err := c.Block(); err != nil {
			t.Fatalf("block: %v", err)
		}
		acts := []chain.Actor{c.Users["u0"], c.Users["u1"], c.Users["u2"]}
		addrIdx := map[string]int{}
		for i, a := range acts {
			addrIdx[a.Addr.String()] = i
		}
		model := map[string]*c16Denom{}
		bal := map[string]*big.Int{} // denom|addr -> balance of factory denoms
		key := func(d string, a chain.Actor) string { return d + "|" + a.Addr.String() }
		getBal := func(d string, a chain.Actor) *big.Int {
			if b := bal[key(d, a)]; b != nil {
				return b
			}
			return new(big.Int)
		}
		var log []string
		formerAdminAttempts, foreignAttempts, successes := 0, 0, 0
		formerAdmins := map[string]map[string]bool{} // denom -> set of former admins

		subdenoms := []string{"foo", "bar", "a/b", "ugrain", "x", strings.Repeat("s", 44), strings.Repeat("t", 45), "factory", "f.o-o:1", "gold", "Gold", "gOLD", "Foo"}
		var otherDenoms []string
		// denom universe for privileged actions: model denoms + natives + unknown + malformed
		pickDenom := func(t *rapid.T) string {
			ds := make([]string, 0, len(model))
			for d := range model {
				ds = append(ds, d)
			}
			sort.Strings(ds)
			if len(ds) > 0 && rapid.IntRange(0, 9).Draw(t, "modelDenom?") < 7 {
				return rapid.SampledFrom(ds).Draw(t, "denom")
			}
			return rapid.SampledFrom(otherDenoms).Draw(t, "otherDenom")
		}
		_ = pickDenom
		// the current admin acts half of the time (so that histories with several successful steps on one denom - mint,
		// hand-over, mint and burn by the new admin - are common), anybody otherwise
		pickSender := func(t *rapid.T, d string) chain.Actor {
			if md := model[d]; md != nil && rapid.Bool().Draw(t, "senderIsAdmin") {
				for _, a := range acts {
					if a.Addr.String() == md.admin {
						return a
					}
				}
			}
			return rapid.SampledFrom(acts).Draw(t, "sender")
		}
		otherDenoms = append(otherDenoms, chain.BondDenom, "factory/"+acts[0].Addr.String()+"/never-created", "factory/notanaddress/foo", "unknown", "factory/"+acts[1].Addr.String()+"/foo/extra")
		amounts := rapid.OneOf(
			rapid.Custom(func(t *rapid.T) *big.Int { return big.NewInt(rapid.Int64Range(1, 1000).Draw(t, "amtSmall")) }),
			rapid.Custom(func(t *rapid.T) *big.Int {
				e := rapid.IntRange(1, 255).Draw(t, "amtExp")
				x := new(big.Int).Lsh(big.NewInt(1), uint(e))
				return x.Add(x, big.NewInt(rapid.Int64Range(-1, 1).Draw(t, "amtOff")))
			}),
		)
		// deliver one tx in its own block, return success
		deliver := func(t *rapid.T, sender chain.Actor, msg sdk.Msg) bool {
			bz, err := c.Sign([]chain.Actor{sender}, msg)
			if err != nil {
				t.Fatalf("sign: %v", err)
			}
			res, err := c.Block(bz)
			if err != nil {
				t.Fatalf("block failed: %v", err)
			}
			return res.TxResults[0].Code == 0
		}
		ugrainBefore := func(a chain.Actor) sdkmath.Int {
			return c.App.BankKeeper.GetBalance(c.ReadCtx(), a.Addr, chain.BondDenom).Amount
		}
		create := func(t *rapid.T) {
			s := rapid.SampledFrom(acts).Draw(t, "sender")
			sub := rapid.SampledFrom(subdenoms).Draw(t, "sub")
			msg := tftypes.NewMsgCreateDenom(s.Addr.String(), sub)
			want := "factory/" + s.Addr.String() + "/" + sub
			before := ugrainBefore(s)
			ok := deliver(t, s, msg)
			log = append(log, fmt.Sprintf("create(u%d,%q)=%v", addrIdx[s.Addr.String()], sub, ok))
			if ok {
				if _, exists := model[want]; exists {
					t.Fatalf("denom %s created a second time", want)
				}
				if len(sub) > 44 {
					t.Fatalf("subdenom of %d chars accepted", len(sub))
				}
				model[want] = &c16Denom{admin: s.Addr.String(), supply: new(big.Int)}
				successes++
			} else if !ugrainBefore(s).Equal(before) {
				t.Fatalf("failed create changed the sender's balance")
			}
		}
		// a contract creates a denom through the wasm binding, optionally with metadata whose base names the new denom,
		// somebody else's factory denom, the native denom, or nothing
		contract := sdk.AccAddress(bytes.Repeat([]byte{0xc6}, 20))
		contractCreates := 0
		if !deliver(t, acts[0], banktypes.NewMsgSend(acts[0].Addr, contract, sdk.NewCoins(sdk.NewCoin(chain.BondDenom, sdkmath.NewInt(100_000_000))))) {
			t.Fatalf("funding the contract failed")
		}
		contractCreate := func(t *rapid.T) {
			sub := rapid.SampledFrom([]string{"cw0", "cw1", "cw2"}).Draw(t, "sub")
			want := "factory/" + contract.String() + "/" + sub
			name := fmt.Sprintf("cwname-%d", rapid.IntRange(0, 99).Draw(t, "name"))
			var md *tfbindingstypes.Metadata
			base := ""
			switch rapid.IntRange(0, 4).Draw(t, "metadataBase") {
			case 0:
				// no metadata
			case 1:
				base = want
			case 2:
				base = pickDenom(t) // usually a denom of the model (administered by an account), or native / malformed
			case 3:
				base = chain.BondDenom
			default:
				base = "" // metadata with an empty base: filled in with the new denom
				md = &tfbindingstypes.Metadata{Name: name, Symbol: "CW", Display: want, DenomUnits: []tfbindingstypes.DenomUnit{{Denom: want, Exponent: 0}}}
			}
			if base != "" {
				md = &tfbindingstypes.Metadata{Base: base, Name: name, Symbol: "CW", Display: base, DenomUnits: []tfbindingstypes.DenomUnit{{Denom: base, Exponent: 0}}}
			}
			bk := c.App.BankKeeper.(bankkeeper.BaseKeeper)
			tk := c.App.TokenFactoryKeeper
			cctx, write := c.Ctx().CacheContext()
			_, err := tfbindings.PerformCreateDenom(&tk, &bk, cctx, contract, &tfbindingstypes.CreateDenom{Subdenom: sub, Metadata: md})
			if err == nil {
				write()
			}
			if _, berr := c.Block(); berr != nil {
				t.Fatalf("block: %v", berr)
			}
			log = append(log, fmt.Sprintf("contractCreate(%q,metadataBase=%q)=%v %.60v", sub, shortDenom(base), err == nil, err))
			if err == nil {
				if _, exists := model[want]; exists {
					t.Fatalf("denom %s created a second time", want)
				}
				if base != "" && base != want {
					t.Fatalf("contract created %s with metadata for another denom (%s)", want, base)
				}
				m := &c16Denom{admin: contract.String(), supply: new(big.Int)}
				if md != nil {
					m.meta = name
				}
				model[want] = m
				contractCreates++
				successes++
			}
		}
		// the contract mints / burns through the wasm bindings, naming itself, nobody, a denom's admin or another account
		// as the account to mint to / burn from. It is entitled to exactly what an account in its place would be: denoms it
		// administers, and only its own balance
		cActor := chain.Actor{Name: "contract", Addr: contract}
		contractAttempts := 0
		contractMint := func(t *rapid.T) {
			d := pickDenom(t)
			a := amounts.Draw(t, "amount")
			to := rapid.SampledFrom([]chain.Actor{cActor, acts[0], acts[1], acts[2]}).Draw(t, "to")
			tk := c.App.TokenFactoryKeeper
			bk := c.App.BankKeeper.(bankkeeper.BaseKeeper)
			cctx, write := c.Ctx().CacheContext()
			err := tfbindings.PerformMint(&tk, &bk, cctx, contract, &tfbindingstypes.MintTokens{Denom: d, Amount: sdkmath.NewIntFromBigInt(a), MintToAddress: to.Addr.String()})
			if err == nil {
				write()
			}
			if _, berr := c.Block(); berr != nil {
				t.Fatalf("block: %v", berr)
			}
			log = append(log, fmt.Sprintf("contractMint(%s,%s,->%s)=%v", shortDenom(d), a, shortAddr(to.Addr.String(), addrIdx), err == nil))
			md := model[d]
			if md != nil && md.admin != contract.String() {
				foreignAttempts++
				contractAttempts++
			}
			if err == nil {
				if md == nil || md.admin != contract.String() {
					t.Fatalf("the contract minted %s, which it does not administer (model %+v)", d, md)
				}
				md.supply.Add(md.supply, a)
				bal[key(d, to)] = new(big.Int).Add(getBal(d, to), a)
				successes++
			}
		}
		contractBurn := func(t *rapid.T) {
			d := pickDenom(t)
			from := rapid.SampledFrom([]string{"", "", contract.String(), "admin", acts[0].Addr.String(), acts[1].Addr.String()}).Draw(t, "burnFrom")
			md := model[d]
			if from == "admin" {
				from = ""
				if md != nil {
					from = md.admin
				}
			}
			// an amount some holder could afford: the named account's balance (or the contract's), or a drawn one
			holder := cActor
			for _, x := range acts {
				if x.Addr.String() == from {
					holder = x
				}
			}
			var a *big.Int
			if rapid.Bool().Draw(t, "burnWithinBalance") && getBal(d, holder).Sign() > 0 {
				a = new(big.Int).Div(getBal(d, holder), big.NewInt(int64(rapid.IntRange(1, 3).Draw(t, "div"))))
				if a.Sign() == 0 {
					a = big.NewInt(1)
				}
			} else {
				a = amounts.Draw(t, "amount")
			}
			tk := c.App.TokenFactoryKeeper
			cctx, write := c.Ctx().CacheContext()
			err := tfbindings.PerformBurn(&tk, cctx, contract, &tfbindingstypes.BurnTokens{Denom: d, Amount: sdkmath.NewIntFromBigInt(a), BurnFromAddress: from})
			if err == nil {
				write()
			}
			if _, berr := c.Block(); berr != nil {
				t.Fatalf("block: %v", berr)
			}
			log = append(log, fmt.Sprintf("contractBurn(%s,%s,from=%s)=%v", shortDenom(d), a, shortAddr(from, addrIdx), err == nil))
			if md != nil && md.admin != contract.String() {
				foreignAttempts++
				contractAttempts++
			}
			if err == nil {
				if md == nil || md.admin != contract.String() {
					t.Fatalf("the contract burned %s of %s (burn_from_address %q), which it does not administer (model %+v)\nhistory: %v", a, d, from, md, log)
				}
				if from != "" && from != contract.String() {
					t.Fatalf("the contract burned %s of %s out of %s's balance", a, d, from)
				}
				if getBal(d, cActor).Cmp(a) < 0 {
					t.Fatalf("contract burn of %s succeeded with balance %s", a, getBal(d, cActor))
				}
				md.supply.Sub(md.supply, a)
				bal[key(d, cActor)] = new(big.Int).Sub(getBal(d, cActor), a)
				successes++
			}
		}
		t.Repeat(map[string]func(*rapid.T){
			"create":         create,
			"create2":        create,
			"contractCreate": contractCreate,
			"contractMint":   contractMint,
			"contractBurn":   contractBurn,
			"mint": func(t *rapid.T) {
				d := pickDenom(t)
				s := pickSender(t, d)
				a := amounts.Draw(t, "amount")
				msg := &tftypes.MsgMint{Amount: sdk.Coin{Denom: d, Amount: sdkmath.NewIntFromBigInt(a)}, Metadata: chain.MD(s)}
				ok := deliver(t, s, msg)
				log = append(log, fmt.Sprintf("mint(u%d,%s,%s)=%v", addrIdx[s.Addr.String()], shortDenom(d), a, ok))
				md := model[d]
				if md != nil && md.admin != s.Addr.String() {
					foreignAttempts++
					if formerAdmins[d][s.Addr.String()] {
						formerAdminAttempts++
					}
				}
				if ok {
					if md == nil {
						t.Fatalf("minted %s, which was not created through the factory", d)
					}
					if md.admin != s.Addr.String() {
						t.Fatalf("mint of %s by %s succeeded, admin is %s", d, s.Addr, md.admin)
					}
					md.supply.Add(md.supply, a)
					bal[key(d, s)] = new(big.Int).Add(getBal(d, s), a)
					successes++
				}
			},
			"burn": func(t *rapid.T) {
				d := pickDenom(t)
				s := pickSender(t, d)
				var a *big.Int
				if rapid.Bool().Draw(t, "burnWithinBalance") && getBal(d, s).Sign() > 0 {
					a = new(big.Int).Div(getBal(d, s), big.NewInt(int64(rapid.IntRange(1, 3).Draw(t, "div"))))
					if a.Sign() == 0 {
						a = big.NewInt(1)
					}
				} else {
					a = amounts.Draw(t, "amount")
				}
				msg := &tftypes.MsgBurn{Amount: sdk.Coin{Denom: d, Amount: sdkmath.NewIntFromBigInt(a)}, Metadata: chain.MD(s)}
				ok := deliver(t, s, msg)
				log = append(log, fmt.Sprintf("burn(u%d,%s,%s)=%v", addrIdx[s.Addr.String()], shortDenom(d), a, ok))
				md := model[d]
				if md != nil && md.admin != s.Addr.String() {
					foreignAttempts++
					if formerAdmins[d][s.Addr.String()] {
						formerAdminAttempts++
					}
				}
				if ok {
					if md == nil {
						t.Fatalf("burned %s, which was not created through the factory", d)
					}
					if md.admin != s.Addr.String() {
						t.Fatalf("burn of %s by %s succeeded, admin is %s", d, s.Addr, md.admin)
					}
					if getBal(d, s).Cmp(a) < 0 {
						t.Fatalf("burn of %s succeeded with balance %s", a, getBal(d, s))
					}
					md.supply.Sub(md.supply, a)
					bal[key(d, s)] = new(big.Int).Sub(getBal(d, s), a)
					successes++
				}
			},
			"changeAdmin": func(t *rapid.T) {
				d := pickDenom(t)
				s := pickSender(t, d)
				na := rapid.SampledFrom([]string{acts[0].Addr.String(), acts[1].Addr.String(), acts[2].Addr.String(), "", "garbage"}).Draw(t, "newAdmin")
				msg := tftypes.NewMsgChangeAdmin(s.Addr.String(), d, na)
				ok := deliver(t, s, msg)
				log = append(log, fmt.Sprintf("changeAdmin(u%d,%s,->%s)=%v", addrIdx[s.Addr.String()], shortDenom(d), shortAddr(na, addrIdx), ok))
				md := model[d]
				if md != nil && md.admin != s.Addr.String() {
					foreignAttempts++
					if formerAdmins[d][s.Addr.String()] {
						formerAdminAttempts++
					}
				}
				if ok {
					if md == nil {
						t.Fatalf("admin of non-factory denom %s changed", d)
					}
					if md.admin != s.Addr.String() {
						t.Fatalf("changeAdmin of %s by %s succeeded, admin is %s", d, s.Addr, md.admin)
					}
					if formerAdmins[d] == nil {
						formerAdmins[d] = map[string]bool{}
					}
					if na != md.admin {
						formerAdmins[d][md.admin] = true
						delete(formerAdmins[d], na)
					}
					md.admin = na
					successes++
				}
			},
			"setMetadata": func(t *rapid.T) {
				d := pickDenom(t)
				s := pickSender(t, d)
				name := fmt.Sprintf("name-%d", rapid.IntRange(0, 99).Draw(t, "name"))
				meta := banktypes.Metadata{Base: d, Display: d, Name: name, Symbol: "SYM", DenomUnits: []*banktypes.DenomUnit{{Denom: d, Exponent: 0}}}
				msg := tftypes.NewMsgSetDenomMetadata(s.Addr.String(), meta)
				ok := deliver(t, s, msg)
				log = append(log, fmt.Sprintf("setMeta(u%d,%s,%s)=%v", addrIdx[s.Addr.String()], shortDenom(d), name, ok))
				md := model[d]
				if md != nil && md.admin != s.Addr.String() {
					foreignAttempts++
					if formerAdmins[d][s.Addr.String()] {
						formerAdminAttempts++
					}
				}
				if ok {
					if md == nil {
						t.Fatalf("metadata of non-factory denom %s changed", d)
					}
					if md.admin != s.Addr.String() {
						t.Fatalf("setMetadata of %s by %s succeeded, admin is %s", d, s.Addr, md.admin)
					}
					md.meta = name
					successes++
				}
			},
			"": func(t *rapid.T) {
				ctx := c.ReadCtx()
				ds := make([]string, 0, len(model))
				for d := range model {
					ds = append(ds, d)
				}
				sort.Strings(ds)
				for _, d := range ds {
					md := model[d]
					if got := bigOf(c.App.BankKeeper.GetSupply(ctx, d).Amount); got.Cmp(md.supply) != 0 {
						t.Fatalf("supply of %s is %s, mints-burns = %s", d, got, md.supply)
					}
					am, err := c.App.TokenFactoryKeeper.GetAuthorityMetadata(ctx, d)
					if err != nil || am.Admin != md.admin {
						t.Fatalf("admin of %s is %q (err %v), model %q", d, am.Admin, err, md.admin)
					}
					sum := new(big.Int)
					for _, a := range append(append([]chain.Actor(nil), acts...), cActor) {
						got := bigOf(c.App.BankKeeper.GetBalance(ctx, a.Addr, d).Amount)
						if got.Cmp(getBal(d, a)) != 0 {
							t.Fatalf("balance of %s in %s is %s, model %s", a.Addr, d, got, getBal(d, a))
						}
						sum.Add(sum, got)
					}
					if sum.Cmp(md.supply) != 0 {
						t.Fatalf("balances of %s sum to %s, supply %s", d, sum, md.supply)
					}
					bm, found := c.App.BankKeeper.GetDenomMetaData(ctx, d)
					if !found || bm.Name != md.meta {
						t.Fatalf("bank metadata name of %s is %q, model %q", d, bm.Name, md.meta)
					}
				}
				// never-created / malformed denoms have no supply
				for _, d := range []string{"factory/" + acts[0].Addr.String() + "/never-created", "unknown"} {
					if !c.App.BankKeeper.GetSupply(ctx, d).Amount.IsZero() {
						t.Fatalf("supply appeared for %s", d)
					}
				}
			},
		})
		trace := strings.Join(log, " ")
		nt := successes >= 2 && (formerAdminAttempts > 0 || foreignAttempts > 0)
		labels := []string{}
		if formerAdminAttempts > 0 {
			labels = append(labels, "formerAdminAttempt")
		}
		if foreignAttempts > 0 {
			labels = append(labels, "foreignAttempt")
		}
		if contractAttempts > 0 {
			labels = append(labels, "contractOnForeignDenom")
		}
		labels = append(labels, fmt.Sprintf("denoms=%d", min(len(model), 5)), fmt.Sprintf("successes>=%d", min(successes/3*3, 12)))
		evid.Case(t.Name(), trace, nt, labels, func() any { return log })
	})
}

func shortDenom(d string) string {
	p := strings.Split(d, "/")
	if len(p) >= 3 && len(p[1]) > 12 {
		p[1] = p[1][len(p[1])-4:]
	}
	return strings.Join(p, "/")
}

func shortAddr(a string, idx map[string]int) string {
	if i, ok := idx[a]; ok {
		return fmt.Sprintf("u%d", i)
	}
	return fmt.Sprintf("%q", a)
}

type banktypesMsgSend = banktypes.MsgSend
