package props

// C04 — message consensus: >= 2/3 of snapshot shares on byte-identical evidence, each validator once,
// outsiders ignored; gas estimate = median of submissions after 2/3 quorum.

import (
	"context"
	"errors"
	"fmt"
	"math/big"
	"sort"
	"strings"
	"testing"

	"cosmossdk.io/log"
	sdkmath "cosmossdk.io/math"
	codectypes "github.com/cosmos/cosmos-sdk/codec/types"
	sdk "github.com/cosmos/cosmos-sdk/types"
	ethcommon "github.com/ethereum/go-ethereum/common"
	ethtypes "github.com/ethereum/go-ethereum/core/types"
	"pgregory.net/rapid"

	palomaapp "github.com/palomachain/paloma/v2/app"
	"github.com/palomachain/paloma/v2/util/libcons"
	"github.com/palomachain/paloma/v2/util/palomath"
	consensustypes "github.com/palomachain/paloma/v2/x/consensus/types"
	evmtypes "github.com/palomachain/paloma/v2/x/evm/types"
	valsettypes "github.com/palomachain/paloma/v2/x/valset/types"

	"verif/harness/evid"
	"verif/harness/gen"
)

var encCfg = palomaapp.MakeEncodingConfig()

type nopLogProvider struct{}

func (nopLogProvider) Logger(context.Context) log.Logger { return log.NewNopLogger() }

func c04ValAddr(i int) sdk.ValAddress {
	b := make([]byte, 20)
	copy(b, fmt.Sprintf("c04-validator-%04d", i))
	return sdk.ValAddress(b)
}

func c04Snapshot(shares []*big.Int) *valsettypes.Snapshot {
	s := &valsettypes.Snapshot{Id: 1, TotalShares: sdkmath.NewIntFromBigInt(gen.Sum(shares))}
	for i, sh := range shares {
		s.Validators = append(s.Validators, valsettypes.Validator{Address: c04ValAddr(i), ShareCount: sdkmath.NewIntFromBigInt(sh), State: valsettypes.ValidatorState_ACTIVE})
	}
	return s
}

// c04Proof builds the k-th distinct proof of a family; different k => different BytesToHash.
func c04Proof(family string, k int) (*codectypes.Any, string) {
	var m interface {
		evmtypes.Hashable
		ProtoMessage()
		Reset()
		String() string
	}
	switch family {
	case "tx":
		tx := ethtypes.NewTx(&ethtypes.LegacyTx{Nonce: 7, To: &ethcommon.Address{0xc1}, Gas: 21000, GasPrice: big.NewInt(1), Data: []byte{byte(k), 0xaa}})
		bz, _ := tx.MarshalBinary()
		m = &evmtypes.TxExecutedProof{SerializedTX: bz}
	case "tx+receipt":
		tx := ethtypes.NewTx(&ethtypes.LegacyTx{Nonce: 7, To: &ethcommon.Address{0xc1}, Gas: 21000, GasPrice: big.NewInt(1), Data: []byte{0xaa}})
		bz, _ := tx.MarshalBinary()
		rc := &ethtypes.Receipt{Status: uint64(k % 2), CumulativeGasUsed: uint64(1000 + k/2)}
		rbz, _ := rc.MarshalBinary()
		m = &evmtypes.TxExecutedProof{SerializedTX: bz, SerializedReceipt: rbz}
	case "error":
		m = &evmtypes.SmartContractExecutionErrorProof{ErrorMessage: fmt.Sprintf("execution reverted %d", k)}
	case "balances":
		m = &evmtypes.ValidatorBalancesAttestationRes{BlockHeight: 100, Balances: []string{"10", fmt.Sprint(k)}}
	case "refblock":
		m = &evmtypes.ReferenceBlockAttestationRes{BlockHeight: uint64(100 + k), BlockHash: "0xabc"}
	case "balancesDigitShift":
		// different answers whose digits, written one after the other, coincide: 123|51, 12|351, 1|2351, 1235|1
		hs := []uint64{123, 12, 1, 1235}
		bs := []string{"51", "351", "2351", "1"}
		m = &evmtypes.ValidatorBalancesAttestationRes{BlockHeight: hs[k%4], Balances: []string{bs[k%4], "1000"}}
	case "refblockDigitShift":
		hs := []uint64{123, 12, 1, 1234}
		bs := []string{"4abc", "34abc", "234abc", "abc"}
		m = &evmtypes.ReferenceBlockAttestationRes{BlockHeight: hs[k%4], BlockHash: bs[k%4]}
	default:
		panic(family)
	}
	a, err := codectypes.NewAnyWithValue(m)
	if err != nil {
		panic(err)
	}
	if _, err := m.BytesToHash(); err != nil {
		panic(err)
	}
	// identity of the evidence for the oracle: the bytes the validator submitted, not the digest input the code derives
	return a, string(a.Value)
}

// c04SubmittedBytes renders a winner the way c04Proof identifies evidence: the bytes a validator submits for it.
func c04SubmittedBytes(w any) []byte {
	m, ok := w.(interface {
		ProtoMessage()
		Reset()
		String() string
	})
	if !ok {
		return nil
	}
	a, err := codectypes.NewAnyWithValue(m)
	if err != nil {
		return nil
	}
	return a.Value
}

func TestC04_EvidenceQuorum(t *testing.T) {
	evid.Check(t, 10000, 100000, func(t *rapid.T) {
		n := rapid.IntRange(1, 10).Draw(t, "n")
		shares := gen.Shares(t, n, "shares")
		total := gen.Sum(shares)
		snap := c04Snapshot(shares)
		outsiders := rapid.IntRange(0, 3).Draw(t, "outsiders")
		nproofs := rapid.IntRange(1, 4).Draw(t, "nproofs")
		families := []string{"tx", "tx+receipt", "error", "balances", "refblock", "balancesDigitShift", "refblockDigitShift"}
		type proof struct {
			any *codectypes.Any
			key string
		}
		var proofs []proof
		mixFamilies := rapid.Bool().Draw(t, "mixFamilies")
		fam := rapid.SampledFrom(families).Draw(t, "family")
		for k := 0; k < nproofs; k++ {
			f := fam
			if mixFamilies {
				f = rapid.SampledFrom(families).Draw(t, "familyK")
			}
			a, key := c04Proof(f, k)
			proofs = append(proofs, proof{a, f + ":" + key})
		}
		// assignment: -1 = did not submit
		mode := rapid.SampledFrom([]string{"random", "firstKsame", "allSame"}).Draw(t, "assignMode")
		assign := make([]int, n+outsiders)
		for i := range assign {
			switch mode {
			case "allSame":
				assign[i] = 0
			case "firstKsame":
				assign[i] = 0
				if i >= n/2+1 {
					assign[i] = rapid.IntRange(-1, nproofs-1).Draw(t, "a")
				}
			default:
				assign[i] = rapid.IntRange(-1, nproofs-1).Draw(t, "a")
			}
		}
		// with the boundary23 family the first k validators are the interesting group: let them agree often
		order := rapid.Permutation(func() []int {
			x := make([]int, n+outsiders)
			for i := range x {
				x[i] = i
			}
			return x
		}()).Draw(t, "order")
		var evs []libcons.Evidence
		groupSum := map[string]*big.Int{}
		submitted := new(big.Int)
		for _, i := range order {
			if assign[i] < 0 {
				continue
			}
			p := proofs[assign[i]]
			evs = append(evs, &consensustypes.Evidence{ValAddress: c04ValAddr(i), Proof: p.any})
			if i < n {
				if groupSum[p.key] == nil {
					groupSum[p.key] = new(big.Int)
				}
				groupSum[p.key].Add(groupSum[p.key], shares[i])
				submitted.Add(submitted, shares[i])
			}
		}
		twoTotal := new(big.Int).Mul(total, big.NewInt(2))
		reaches := func(s *big.Int) bool { return new(big.Int).Mul(s, big.NewInt(3)).Cmp(twoTotal) >= 0 }
		var winners []string
		near := false
		for k, s := range groupSum {
			if reaches(s) {
				winners = append(winners, k)
			}
			// within one share (the smallest share) of the threshold
			d := new(big.Int).Sub(new(big.Int).Mul(s, big.NewInt(3)), twoTotal)
			if d.CmpAbs(big.NewInt(6)) <= 0 {
				near = true
			}
		}
		sort.Strings(winners)

		cc := libcons.New(func(context.Context) (*valsettypes.Snapshot, error) { return snap, nil }, encCfg.Codec)
		res, err := cc.VerifyEvidence(context.Background(), evs)
		if len(winners) > 0 {
			if err != nil {
				t.Fatalf("group %q holds >= 2/3 of %s shares but VerifyEvidence returned %v", winners[0], total, err)
			}
			h, ok := res.Winner.(evmtypes.Hashable)
			if !ok {
				t.Fatalf("winner is %T", res.Winner)
			}
			_ = h
			bz := c04SubmittedBytes(res.Winner)
			found := false
			for _, w := range winners {
				if strings.HasSuffix(w, ":"+string(bz)) {
					found = true
				}
			}
			if !found {
				t.Fatalf("winner %x is not the evidence of a group with >= 2/3 of shares", bz)
			}
		} else {
			if err == nil {
				t.Fatalf("no evidence group reaches 2/3 of %s (groups %v) but a winner %v was declared", total, groupSum, res.Winner)
			}
			if !errors.Is(err, libcons.ErrConsensusNotAchieved) {
				t.Fatalf("unexpected error %v", err)
			}
			if res != nil && res.Winner != nil {
				t.Fatalf("winner set together with an error")
			}
		}
		nt := near || len(groupSum) >= 2
		labels := []string{fmt.Sprintf("groups=%d", len(groupSum))}
		if near {
			labels = append(labels, "nearThreshold")
		}
		if len(winners) > 0 {
			labels = append(labels, "winner")
		}
		if outsiders > 0 {
			labels = append(labels, "outsiders")
		}
		trace := fmt.Sprintf("shares=%v outsiders=%d proofs=%d assign=%v order=%v", shares, outsiders, nproofs, assign, order)
		evid.Case(t.Name(), trace, nt, labels, func() any {
			return map[string]any{"shares": fmt.Sprint(shares), "total": total.String(), "assign(-1=none)": assign, "outsiders": outsiders, "winner": len(winners) > 0}
		})
	})
}

// the queue keeps only the latest submission of a validator; together with VerifyEvidence this is
// "each validator counted once (its latest submission)".
func TestC04_LatestEvidenceCountsOnce(t *testing.T) {
	evid.Check(t, 5000, 40000, func(t *rapid.T) {
		n := rapid.IntRange(1, 6).Draw(t, "n")
		shares := gen.Shares(t, n, "shares")
		total := gen.Sum(shares)
		snap := c04Snapshot(shares)
		nproofs := rapid.IntRange(1, 3).Draw(t, "nproofs")
		fam := rapid.SampledFrom([]string{"tx", "error", "tx+receipt"}).Draw(t, "family")
		var anys []*codectypes.Any
		var keys []string
		for k := 0; k < nproofs; k++ {
			a, key := c04Proof(fam, k)
			anys, keys = append(anys, a), append(keys, key)
		}
		msg := &consensustypes.QueuedSignedMessage{Id: 1}
		latest := map[int]int{}
		resub := 0
		steps := rapid.IntRange(1, 14).Draw(t, "steps")
		var log []string
		for s := 0; s < steps; s++ {
			v := rapid.IntRange(0, n).Draw(t, "v") // n = an outsider
			p := rapid.IntRange(0, nproofs-1).Draw(t, "p")
			if _, ok := latest[v]; ok {
				resub++
			}
			msg.AddEvidence(consensustypes.Evidence{ValAddress: c04ValAddr(v), Proof: anys[p]})
			latest[v] = p
			log = append(log, fmt.Sprintf("%d:%d", v, p))
		}
		// stored evidence: one entry per validator, holding its latest proof
		if len(msg.Evidence) != len(latest) {
			t.Fatalf("stored %d evidence entries for %d distinct validators", len(msg.Evidence), len(latest))
		}
		var evs []libcons.Evidence
		for _, e := range msg.Evidence {
			evs = append(evs, e)
		}
		groupSum := map[string]*big.Int{}
		for v, p := range latest {
			if v >= n {
				continue
			}
			if groupSum[keys[p]] == nil {
				groupSum[keys[p]] = new(big.Int)
			}
			groupSum[keys[p]].Add(groupSum[keys[p]], shares[v])
		}
		twoTotal := new(big.Int).Mul(total, big.NewInt(2))
		win := ""
		for k, s := range groupSum {
			if new(big.Int).Mul(s, big.NewInt(3)).Cmp(twoTotal) >= 0 {
				win = k
			}
		}
		cc := libcons.New(func(context.Context) (*valsettypes.Snapshot, error) { return snap, nil }, encCfg.Codec)
		res, err := cc.VerifyEvidence(context.Background(), evs)
		if win != "" {
			if err != nil {
				t.Fatalf("latest submissions for %q reach 2/3 but got %v", win, err)
			}
			bz := c04SubmittedBytes(res.Winner)
			if string(bz) != win {
				t.Fatalf("winner differs from the 2/3 group of latest submissions")
			}
		} else if err == nil {
			t.Fatalf("winner declared although the latest submissions give no group 2/3: log=%v shares=%v", log, shares)
		}
		trace := fmt.Sprintf("shares=%v log=%v", shares, log)
		evid.Case(t.Name(), trace, resub > 0 && len(groupSum) >= 1, []string{fmt.Sprintf("resubmissions=%d", min(resub, 5))}, func() any {
			return map[string]any{"shares": fmt.Sprint(shares), "submissions(validator:proof)": log, "winner": win != ""}
		})
	})
}

func TestC04_GasEstimateMedian(t *testing.T) {
	evid.Check(t, 10000, 100000, func(t *rapid.T) {
		n := rapid.IntRange(1, 12).Draw(t, "n")
		shares := gen.Shares(t, n, "shares")
		total := gen.Sum(shares)
		snap := c04Snapshot(shares)
		outsiders := rapid.IntRange(0, 2).Draw(t, "outsiders")
		mode := rapid.SampledFrom([]string{"random", "all", "most"}).Draw(t, "mode")
		var ests []libcons.GasEstimate
		var memberVals, allVals []uint64
		submitted := new(big.Int)
		big63 := false
		for i := 0; i < n+outsiders; i++ {
			sub := true
			switch mode {
			case "random":
				sub = rapid.Bool().Draw(t, "sub")
			case "most":
				sub = rapid.IntRange(0, 9).Draw(t, "sub") > 0
			}
			if !sub {
				continue
			}
			v := gen.Uint64Hostile().Draw(t, "v")
			if v >= 1<<63 {
				big63 = true
			}
			ests = append(ests, &consensustypes.GasEstimate{ValAddress: c04ValAddr(i), Value: v})
			allVals = append(allVals, v)
			if i < n {
				memberVals = append(memberVals, v)
				submitted.Add(submitted, shares[i])
			}
		}
		quorum := new(big.Int).Mul(submitted, big.NewInt(3)).Cmp(new(big.Int).Mul(total, big.NewInt(2))) >= 0
		cc := libcons.New(func(context.Context) (*valsettypes.Snapshot, error) { return snap, nil }, encCfg.Codec)
		got, err := cc.VerifyGasEstimates(context.Background(), nopLogProvider{}, ests)
		if !quorum {
			if err == nil {
				t.Fatalf("estimate %d elected with %s of %s shares submitted", got, submitted, total)
			}
		} else {
			if err != nil {
				t.Fatalf("quorum of estimates present (%s of %s) but election failed: %v", submitted, total, err)
			}
			inBand := func(vals []uint64) bool {
				if len(vals) == 0 {
					return false
				}
				w := append([]uint64(nil), vals...)
				sort.Slice(w, func(i, j int) bool { return w[i] < w[j] })
				lo, hi := w[(len(w)-1)/2], w[len(w)/2]
				return lo <= got && got <= hi
			}
			w := append([]uint64(nil), allVals...)
			sort.Slice(w, func(i, j int) bool { return w[i] < w[j] })
			if got < w[0] || got > w[len(w)-1] {
				t.Fatalf("elected estimate %d lies outside the submitted values [%d, %d] (%v)", got, w[0], w[len(w)-1], allVals)
			}
			// median of the submissions; whether outsiders' values take part is not fixed by the statement
			if !inBand(allVals) && !inBand(memberVals) {
				t.Fatalf("elected estimate %d is not the median of the submitted values %v", got, allVals)
			}
		}
		d := new(big.Int).Sub(new(big.Int).Mul(submitted, big.NewInt(3)), new(big.Int).Mul(total, big.NewInt(2)))
		near := d.CmpAbs(big.NewInt(6)) <= 0
		labels := []string{}
		if near {
			labels = append(labels, "nearThreshold")
		}
		if big63 {
			labels = append(labels, "value>=2^63")
		}
		if quorum {
			labels = append(labels, "quorum")
		}
		if len(allVals)%2 == 0 && len(allVals) > 0 {
			labels = append(labels, "evenCount")
		}
		trace := fmt.Sprintf("shares=%v vals=%v out=%d", shares, allVals, outsiders)
		evid.Case(t.Name(), trace, near || big63, labels, func() any {
			return map[string]any{"shares": fmt.Sprint(shares), "estimates": fmt.Sprint(allVals), "outsiders": outsiders, "quorum": quorum, "elected": got}
		})
	})
}

// Median over the full uint64 range: within [lower-middle, upper-middle] of the multiset.
func TestC04_MedianRange(t *testing.T) {
	evid.Check(t, 20000, 200000, func(t *rapid.T) {
		vals := rapid.SliceOfN(gen.Uint64Hostile(), 1, 12).Draw(t, "vals")
		got := palomath.Median(vals)
		w := append([]uint64(nil), vals...)
		sort.Slice(w, func(i, j int) bool { return w[i] < w[j] })
		lo, hi := w[(len(w)-1)/2], w[len(w)/2]
		if got < lo || got > hi {
			t.Fatalf("Median(%v) = %d, outside the middle values [%d, %d]", vals, got, lo, hi)
		}
		nt := len(w)%2 == 0 && hi >= 1<<63
		evid.Case(t.Name(), fmt.Sprint(vals), nt, nil, func() any { return map[string]any{"values": fmt.Sprint(vals), "median": got} })
	})
}

// Plain regression of the shrunk failure found on the pinned tree (uint64 wrap-around in Median):
// fixed by "fix: palomath.Median ..." in /repo.
func TestC04_Regress_MedianOverflow(t *testing.T) {
	for _, vals := range [][]uint64{
		{0x7ffffffffffffc18, 0xfffffffffffffc18},
		{21000, 0xfffffffffffffc18},
		{1<<63 + 2, 1<<63 + 4},
		{1<<64 - 1, 1<<64 - 1},
	} {
		got := palomath.Median(vals)
		lo, hi := vals[0], vals[1]
		if got < lo || got > hi {
			t.Errorf("Median(%v) = %d outside [%d, %d]", vals, got, lo, hi)
		}
	}
	snap := c04Snapshot([]*big.Int{big.NewInt(1)})
	cc := libcons.New(func(context.Context) (*valsettypes.Snapshot, error) { return snap, nil }, encCfg.Codec)
	got, err := cc.VerifyGasEstimates(context.Background(), nopLogProvider{}, []libcons.GasEstimate{
		&consensustypes.GasEstimate{ValAddress: c04ValAddr(0), Value: 21000},
		&consensustypes.GasEstimate{ValAddress: c04ValAddr(1), Value: 0xfffffffffffffc18},
	})
	if err == nil && got < 21000 {
		t.Errorf("elected estimate %d below every submitted value", got)
	}
}
