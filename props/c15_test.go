//go:build verif

package props

// C15 — bridge tax and transfer limits exactly as configured: reference model in exact rationals.

import (
	"fmt"
	"math/big"
	"strings"
	"testing"
	"time"

	sdkmath "cosmossdk.io/math"
	sdk "github.com/cosmos/cosmos-sdk/types"
	"pgregory.net/rapid"

	skywaytypes "github.com/palomachain/paloma/v2/x/skyway/types"
	tftypes "github.com/palomachain/paloma/v2/x/tokenfactory/types"

	"verif/harness/bridge"
	"verif/harness/chain"
	"verif/harness/evid"
)

const c15Chain = "eth-main"

var c15Max = new(big.Int).Sub(new(big.Int).Lsh(big.NewInt(1), 256), big.NewInt(1))

func c15Amount(t *rapid.T, label string) *big.Int {
	switch rapid.IntRange(0, 5).Draw(t, label+".kind") {
	case 0:
		return big.NewInt(rapid.Int64Range(1, 20).Draw(t, label))
	case 1:
		return big.NewInt(rapid.Int64Range(1, 1_000_000_000).Draw(t, label))
	case 2: // log-uniform
		e := rapid.IntRange(1, 250).Draw(t, label+".exp")
		x := new(big.Int).Lsh(big.NewInt(1), uint(e))
		return x.Add(x, big.NewInt(rapid.Int64Range(-1, 1000).Draw(t, label+".off")))
	case 3:
		return new(big.Int).Sub(c15Max, big.NewInt(rapid.Int64Range(0, 3).Draw(t, label+".fromMax")))
	default:
		return big.NewInt(rapid.Int64Range(1, 5000).Draw(t, label))
	}
}

func TestC15_TaxAndLimits(t *testing.T) {
	evid.Check(t, 150, 1200, func(t *rapid.T) {
		salt := fmt.Sprintf("c15-%d", rapid.IntRange(0, 1<<30).Draw(t, "salt"))
		c, err := chain.New(chain.Options{Salt: salt, Stakes: []int64{100_000_000, 100_000_000, 100_000_000}, InitialHeight: 44, Users: []string{"u0", "u1", "u2", "owner"}, EvmChains: []chain.EvmChain{{RefID: c15Chain, ChainID: 1}}})
		if err != nil {
			t.Fatalf("boot: %v", err)
		}
		defer c.Close()
		if err := c.Ready(); err != nil {
			t.Fatalf("ready: %v", err)
		}
		owner := c.Users["owner"]
		users := []chain.Actor{c.Users["u0"], c.Users["u1"], c.Users["u2"]}
		// a token with an enormous supply so that amounts up to 2^253 can be sent
		huge := new(big.Int).Lsh(big.NewInt(1), 255)
		tok, err := c.SetupToken(owner, "big", sdkmath.NewIntFromBigInt(huge), c15Chain, "0x00000000000000000000000000000000000000E1")
		if err != nil {
			t.Fatalf("token: %v", err)
		}
		share := new(big.Int).Lsh(big.NewInt(1), 253)
		var txs [][]byte
		for _, u := range users {
			txs = append(txs, c.MustSign(owner, &banktypesMsgSend{FromAddress: owner.Addr.String(), ToAddress: u.Addr.String(), Amount: sdk.NewCoins(sdk.NewCoin(tok.Denom, sdkmath.NewIntFromBigInt(share)))}))
		}
		if res, err := c.Block(txs...); err != nil || res.TxResults[0].Code != 0 {
			t.Fatalf("distribute: %v", err)
		}
		_ = tftypes.ModuleName
		// configuration
		rateStr := rapid.SampledFrom([]string{"none", "0", "0.2", "1/3", "7/3", "0.0025", "0.000000000000000000000000000001", "123456789/1000000007", "1", "99999999999999999999/3"}).Draw(t, "rate")
		taxExempt := rapid.IntRange(-1, 2).Draw(t, "taxExemptUser")
		var rate *big.Rat
		if rateStr != "none" {
			bt := &skywaytypes.BridgeTax{Token: tok.Denom, Rate: rateStr}
			if taxExempt >= 0 {
				bt.ExemptAddresses = []sdk.AccAddress{users[taxExempt].Addr}
			}
			if err := c.App.SkywayKeeper.SetBridgeTax(c.Ctx(), bt); err != nil {
				t.Fatalf("set tax %q: %v", rateStr, err)
			}
			rate, _ = new(big.Rat).SetString(rateStr)
		}
		period := rapid.SampledFrom([]skywaytypes.LimitPeriod{skywaytypes.LimitPeriod_NONE, skywaytypes.LimitPeriod_DAILY, skywaytypes.LimitPeriod_DAILY, skywaytypes.LimitPeriod_WEEKLY, skywaytypes.LimitPeriod_MONTHLY, skywaytypes.LimitPeriod_YEARLY}).Draw(t, "period")
		hasLimit := rapid.IntRange(0, 4).Draw(t, "hasLimit") > 0
		limitExempt := rapid.IntRange(-1, 2).Draw(t, "limitExemptUser")
		limit := c15Amount(t, "limit")
		periodBlocks := int64(0)
		if hasLimit {
			bl := &skywaytypes.BridgeTransferLimit{Token: tok.Denom, Limit: sdkmath.NewIntFromBigInt(limit), LimitPeriod: period}
			if limitExempt >= 0 {
				bl.ExemptAddresses = []sdk.AccAddress{users[limitExempt].Addr}
			}
			if err := c.App.SkywayKeeper.SetBridgeTransferLimit(c.Ctx(), bl); err != nil {
				t.Fatalf("limit: %v", err)
			}
			periodBlocks = bl.BlockLimit()
		}
		if _, err := c.Block(); err != nil {
			t.Fatalf("block: %v", err)
		}
		b := bridge.New(c)
		k := b.K
		bal := []*big.Int{new(big.Int).Set(share), new(big.Int).Set(share), new(big.Int).Set(share)}
		var winStart int64 = -1
		winUsed := new(big.Int)
		type rec struct {
			id     uint64
			user   int
			amount *big.Int
			tax    *big.Int
		}
		var pool []rec
		var log []string
		fracTax, edgeSend, failBetween, taxChanged, cancelAfterTaxChange := false, false, false, false, false
		limitReissued := false
		batchTimedOut := false
		accepted, lastFailed := 0, false
		known := map[uint64]bool{}

		steps := rapid.IntRange(6, 22).Draw(t, "steps")
		for s := 0; s < steps; s++ {
			// move the clock
			switch rapid.IntRange(0, 6).Draw(t, "clock") {
			case 0:
				if winStart >= 0 && periodBlocks > 0 {
					b.JumpTo(winStart + periodBlocks - 1)
				}
			case 1:
				if winStart >= 0 && periodBlocks > 0 {
					b.JumpTo(winStart + periodBlocks)
				}
			case 2:
				b.JumpTo(b.H + int64(rapid.IntRange(1, 100000).Draw(t, "jump")))
			case 3:
				b.JumpTo(b.H + 1)
			}
			if rapid.IntRange(0, 7).Draw(t, "changeTax?") == 0 {
				// governance changes the rate / the exemption while transfers are pending: the tax recorded with a
				// transfer, not the one in force later, is what a cancellation returns
				rateStr = rapid.SampledFrom([]string{"0", "0.2", "1/3", "7/3", "0.0025", "1"}).Draw(t, "newRate")
				taxExempt = rapid.IntRange(-1, 2).Draw(t, "newTaxExemptUser")
				bt := &skywaytypes.BridgeTax{Token: tok.Denom, Rate: rateStr}
				if taxExempt >= 0 {
					bt.ExemptAddresses = []sdk.AccAddress{users[taxExempt].Addr}
				}
				if err := k.SetBridgeTax(b.Ctx(), bt); err != nil {
					t.Fatalf("set tax %q: %v", rateStr, err)
				}
				rate, _ = new(big.Rat).SetString(rateStr)
				taxChanged = true
				log = append(log, fmt.Sprintf("h%d:tax(%s,exempt=%d)", b.H, rateStr, taxExempt))
			}
			if len(pool) > 0 && rapid.IntRange(0, 9).Draw(t, "batchAndTimeout?") == 0 {
				// the pooled transfers are put into a batch (next multiple of 50), the batch is not executed and times out
				// (10 minutes) and the end blocker releases them into the pool again - with the tax recorded at send time
				b.JumpTo((b.H/50 + 1) * 50)
				b.EndBlock()
				batches, _ := k.GetOutgoingTxBatches(b.Ctx())
				b.PassTime(11 * time.Minute)
				b.EndBlock()
				left, _ := k.GetOutgoingTxBatches(b.Ctx())
				log = append(log, fmt.Sprintf("h%d:batchAndTimeout(batches %d->%d)", b.H, len(batches), len(left)))
				if len(batches) > 0 && len(left) == 0 {
					batchTimedOut = true
				}
			}
			if hasLimit && rapid.IntRange(0, 7).Draw(t, "reissueLimit?") == 0 {
				// governance passes the very same limit again (same amount, period and exemptions) in the middle of a
				// window: the allowance already used in that window stays used
				bl := &skywaytypes.BridgeTransferLimit{Token: tok.Denom, Limit: sdkmath.NewIntFromBigInt(limit), LimitPeriod: period}
				if limitExempt >= 0 {
					bl.ExemptAddresses = []sdk.AccAddress{users[limitExempt].Addr}
				}
				if err := k.SetBridgeTransferLimit(b.Ctx(), bl); err != nil {
					t.Fatalf("limit: %v", err)
				}
				limitReissued = true
				log = append(log, fmt.Sprintf("h%d:limitReissued", b.H))
			}
			if rapid.IntRange(0, 5).Draw(t, "cancel?") == 0 && len(pool) > 0 {
				i := rapid.IntRange(0, len(pool)-1).Draw(t, "which")
				r := pool[i]
				err := b.Tx(&skywaytypes.MsgCancelSendToRemote{Metadata: chain.MD(users[r.user]), TransactionId: r.id})
				if err != nil {
					t.Fatalf("cancel of own pooled transfer %d failed: %v", r.id, err)
				}
				got := c.App.BankKeeper.GetBalance(b.Ctx(), users[r.user].Addr, tok.Denom).Amount.BigInt()
				want := new(big.Int).Add(bal[r.user], new(big.Int).Add(r.amount, r.tax))
				if got.Cmp(want) != 0 {
					t.Fatalf("cancel returned %s, expected amount %s + tax %s", new(big.Int).Sub(got, bal[r.user]), r.amount, r.tax)
				}
				bal[r.user] = want
				if taxChanged {
					cancelAfterTaxChange = true
				}
				pool = append(pool[:i], pool[i+1:]...)
				log = append(log, fmt.Sprintf("h%d:cancel(%d)", b.H, r.id))
				continue
			}
			ui := rapid.IntRange(0, 2).Draw(t, "user")
			a := c15Amount(t, "amount")
			denom := tok.Denom
			if rapid.IntRange(0, 9).Draw(t, "unknownDenom") == 0 {
				denom = chain.BondDenom
			}
			// reference model
			isTaxExempt := taxExempt == ui
			tax := new(big.Int)
			overflow := false
			if rate != nil && rate.Sign() != 0 && !isTaxExempt {
				num := new(big.Int).Mul(a, rate.Num())
				if num.BitLen() > 256 {
					overflow = true
				}
				tax = num.Quo(num, rate.Denom())
				if new(big.Int).Mod(new(big.Int).Mul(a, rate.Num()), rate.Denom()).Sign() != 0 {
					fracTax = true
				}
			}
			cost := new(big.Int).Add(a, tax)
			if cost.BitLen() > 256 {
				overflow = true
			}
			limited := hasLimit && period != skywaytypes.LimitPeriod_NONE && limitExempt != ui
			limitOK := true
			newWin := false
			if limited {
				used := winUsed
				if winStart < 0 || b.H-winStart >= periodBlocks {
					used = new(big.Int)
					newWin = true
				}
				if new(big.Int).Add(used, a).Cmp(limit) > 0 {
					limitOK = false
				}
				if new(big.Int).Add(used, a).BitLen() > 256 {
					overflow = true
				}
				if winStart >= 0 && (b.H-winStart == periodBlocks || b.H-winStart == periodBlocks-1) {
					edgeSend = true
				}
			}
			fundsOK := cost.Cmp(bal[ui]) <= 0
			usageBefore, _ := k.BridgeTransferUsage(b.Ctx(), tok.Denom)
			err := b.Tx(&skywaytypes.MsgSendToRemote{Metadata: chain.MD(users[ui]), EthDest: "0x00000000000000000000000000000000000000d1", Amount: sdk.NewCoin(denom, sdkmath.NewIntFromBigInt(a)), ChainReferenceId: c15Chain})
			log = append(log, fmt.Sprintf("h%d:send(u%d,%s%s)=%v", b.H, ui, a, map[bool]string{true: " ugrain", false: ""}[denom != tok.Denom], err == nil))
			got := c.App.BankKeeper.GetBalance(b.Ctx(), users[ui].Addr, tok.Denom).Amount.BigInt()
			if denom != tok.Denom {
				if err == nil {
					t.Fatalf("send of an unmapped denom accepted")
				}
				lastFailed = true
				continue
			}
			if err == nil {
				if !limitOK {
					t.Fatalf("h=%d: transfer of %s accepted although the window (start %d, used %s) allows only %s per %d blocks\nhistory: %v", b.H, a, winStart, winUsed, limit, periodBlocks, log)
				}
				paid := new(big.Int).Sub(bal[ui], got)
				if paid.Cmp(cost) != 0 {
					t.Fatalf("transfer of %s at rate %s (exempt=%v) cost the sender %s, expected %s + floor(a*r) = %s", a, rateStr, isTaxExempt, paid, a, cost)
				}
				bal[ui] = got
				// stored tax
				ps, _ := k.GetUnbatchedTransactions(b.Ctx())
				found := false
				for _, p := range ps {
					if !known[p.Id] {
						known[p.Id] = true
						if p.BridgeTaxAmount.BigInt().Cmp(tax) != 0 || p.Erc20Token.Amount.BigInt().Cmp(a) != 0 {
							t.Fatalf("stored transfer has amount %s tax %s, expected %s / %s", p.Erc20Token.Amount, p.BridgeTaxAmount, a, tax)
						}
						pool = append(pool, rec{id: p.Id, user: ui, amount: a, tax: tax})
						found = true
					}
				}
				if !found {
					t.Fatalf("accepted transfer not found in the pool")
				}
				if limited {
					if newWin {
						winStart, winUsed = b.H, new(big.Int)
					}
					winUsed = new(big.Int).Add(winUsed, a)
				}
				accepted++
				if lastFailed && accepted > 1 {
					failBetween = true
				}
				lastFailed = false
			} else {
				if got.Cmp(bal[ui]) != 0 {
					t.Fatalf("rejected transfer changed the sender's balance")
				}
				if fundsOK && limitOK && !overflow {
					t.Fatalf("h=%d: transfer of %s by u%d rejected (%v) although funds suffice, no arithmetic overflow, and the limit rules allow it (limited=%v window start %d used %s limit %s)\nhistory: %v", b.H, a, ui, err, limited, winStart, winUsed, limit, log)
				}
				usageAfter, _ := k.BridgeTransferUsage(b.Ctx(), tok.Denom)
				if fmt.Sprint(usageBefore) != fmt.Sprint(usageAfter) {
					t.Fatalf("rejected transfer consumed allowance: usage %v -> %v", usageBefore, usageAfter)
				}
				lastFailed = true
			}
			// usage record equals the model's window
			if winStart >= 0 {
				u, err := k.BridgeTransferUsage(b.Ctx(), tok.Denom)
				if err != nil || u.StartBlockHeight != winStart || u.Total.BigInt().Cmp(winUsed) != 0 {
					t.Fatalf("usage record %v (err %v), model window start %d used %s", u, err, winStart, winUsed)
				}
				if winUsed.Cmp(limit) > 0 {
					t.Fatalf("accepted transfers in the window starting at %d total %s > limit %s", winStart, winUsed, limit)
				}
			}
		}
		labels := []string{"rate=" + rateStr, "period=" + period.String()}
		if fracTax {
			labels = append(labels, "fractionalTax")
		}
		if edgeSend {
			labels = append(labels, "sendAtWindowEdge")
		}
		if failBetween {
			labels = append(labels, "failedSendBetweenAccepted")
		}
		if cancelAfterTaxChange {
			labels = append(labels, "cancelAfterTaxChange")
		}
		if limitReissued {
			labels = append(labels, "limitReissuedMidHistory")
		}
		if batchTimedOut {
			labels = append(labels, "batchBuiltAndTimedOut")
		}
		evid.Case(t.Name(), fmt.Sprintf("rate=%s exT=%d limit=%v %s/%s exL=%d | %s", rateStr, taxExempt, hasLimit, limit, period, limitExempt, strings.Join(log, " ")), fracTax || edgeSend || failBetween, labels, func() any {
			return map[string]any{"rate": rateStr, "limit": fmt.Sprintf("%v %s per %s", hasLimit, limit, period), "history": log}
		})
	})
}
