//go:build verif

package props

// C01 — bridge escrow conservation, exactly-one-place transfer life-cycle, failure atomicity, under histories of
// send / cancel / batch build / timeout / estimate election / executed-batch and deposit attestations and a fault
// injected at any collaborator call.

import (
	"fmt"
	"math/big"
	"sort"
	"strings"
	"testing"
	"time"

	sdkmath "cosmossdk.io/math"
	sdk "github.com/cosmos/cosmos-sdk/types"
	authtypes "github.com/cosmos/cosmos-sdk/x/auth/types"
	"pgregory.net/rapid"

	skywaytypes "github.com/palomachain/paloma/v2/x/skyway/types"
	vtypes "github.com/palomachain/paloma/v2/x/valset/types"

	"verif/harness/bridge"
	"verif/harness/chain"
	"verif/harness/evid"
	"verif/harness/project"
)

const c01Chain = "eth-main"

type c01Tx struct {
	id     uint64
	sender int
	denom  string
	amount *big.Int
	tax    *big.Int
	status string // pending | refunded | burned
}

type c01Token struct {
	denom string
	erc20 string
}

func c01Setup(t *rapid.T, salt string, rates []string) (*chain.Chain, *bridge.Bridge, []chain.Actor, []c01Token) {
	c, err := chain.New(chain.Options{Salt: salt, Stakes: []int64{100_000_000, 100_000_000, 100_000_000, 100_000_000}, InitialHeight: 44, Users: []string{"u0", "u1", "u2", "owner"},
		EvmChains: []chain.EvmChain{{RefID: c01Chain, ChainID: 1}}})
	if err != nil {
		t.Fatalf("boot: %v", err)
	}
	if err := c.Ready(); err != nil {
		c.Close()
		t.Fatalf("ready: %v", err)
	}
	owner := c.Users["owner"]
	users := []chain.Actor{c.Users["u0"], c.Users["u1"], c.Users["u2"]}
	var toks []c01Token
	for i, rate := range rates {
		erc20 := fmt.Sprintf("0x00000000000000000000000000000000000000E%d", i+1)
		tok, err := c.SetupToken(owner, fmt.Sprintf("tok%d", i), sdkmath.NewInt(3_000_000_000), c01Chain, erc20)
		if err != nil {
			c.Close()
			t.Fatalf("token: %v", err)
		}
		var txs [][]byte
		for _, u := range users {
			_ = u
		}
		// distribute
		for _, u := range users {
			txs = append(txs, c.MustSign(owner, bankSend(owner, u, tok.Denom, 1_000_000_000)))
		}
		res, err := c.Block(txs...)
		if err != nil {
			c.Close()
			t.Fatalf("distribute: %v", err)
		}
		for j, r := range res.TxResults {
			if r.Code != 0 {
				c.Close()
				t.Fatalf("distribute tx %d: %s", j, r.Log)
			}
		}
		if rate != "none" {
			if err := c.App.SkywayKeeper.SetBridgeTax(c.Ctx(), &skywaytypes.BridgeTax{Token: tok.Denom, Rate: rate, ExemptAddresses: []sdk.AccAddress{users[2].Addr}}); err != nil {
				c.Close()
				t.Fatalf("tax: %v", err)
			}
		}
		toks = append(toks, c01Token{denom: tok.Denom, erc20: erc20})
	}
	if _, err := c.Block(); err != nil {
		c.Close()
		t.Fatalf("block: %v", err)
	}
	return c, bridge.New(c), users, toks
}

func TestC01_BridgeConservation(t *testing.T) {
	evid.Check(t, 150, 800, func(t *rapid.T) {
		salt := fmt.Sprintf("c01-%d", rapid.IntRange(0, 1<<30).Draw(t, "salt"))
		ntok := rapid.IntRange(1, 2).Draw(t, "tokens")
		rates := make([]string, ntok)
		for i := range rates {
			rates[i] = rapid.SampledFrom([]string{"none", "0", "1/5", "0.0025", "7/3"}).Draw(t, "rate")
		}
		c, b, users, toks := c01Setup(t, salt, rates)
		defer c.Close()
		k := b.K
		modAddr := authtypes.NewModuleAddress(skywaytypes.ModuleName)
		txs := map[uint64]*c01Tx{}
		supply := map[string]*big.Int{}
		for _, tk := range toks {
			supply[tk.denom] = k0Supply(c, tk.denom)
		}
		var log []string
		skyNonce := uint64(0)
		type claimRec struct {
			kind   string // executed | deposit
			batch  uint64
			erc20  string
			amount int64
			valid  bool
			height uint64
		}
		claims := map[uint64]claimRec{}
		observed := map[uint64]bool{}
		faultInEndBlockWithPending, stages2 := false, false
		relayerWithoutAccount := false
		batchStage := map[uint64]int{}

		balance := func(a sdk.AccAddress, d string) *big.Int {
			return c.App.BankKeeper.GetBalance(b.Ctx(), a, d).Amount.BigInt()
		}
		// the conservation oracle
		check := func(t *rapid.T, after string) {
			ctx := b.Ctx()
			pool, err := k.GetUnbatchedTransactions(ctx)
			if err != nil {
				t.Fatalf("pool: %v", err)
			}
			batches, err := k.GetOutgoingTxBatches(ctx)
			if err != nil {
				t.Fatalf("batches: %v", err)
			}
			where := map[uint64]string{}
			sum := map[string]*big.Int{}
			add := func(id uint64, place string, erc20 string, amt, tax *big.Int) {
				if w, dup := where[id]; dup {
					t.Fatalf("after %s: transfer %d is in two places: %s and %s\nhistory: %v", after, id, w, place, log)
				}
				where[id] = place
				d := ""
				for _, tk := range toks {
					if strings.EqualFold(tk.erc20, erc20) {
						d = tk.denom
					}
				}
				if sum[d] == nil {
					sum[d] = new(big.Int)
				}
				sum[d].Add(sum[d], amt).Add(sum[d], tax)
			}
			for _, p := range pool {
				add(p.Id, "pool", p.Erc20Token.Contract.GetAddress().Hex(), p.Erc20Token.Amount.BigInt(), p.BridgeTaxAmount.BigInt())
			}
			for _, bt := range batches {
				for _, p := range bt.Transactions {
					add(p.Id, fmt.Sprintf("batch %d", bt.BatchNonce), bt.TokenContract.GetAddress().Hex(), p.Erc20Token.Amount.BigInt(), p.BridgeTaxAmount.BigInt())
				}
			}
			// every accepted transfer is in exactly one place
			ids := make([]uint64, 0, len(txs))
			for id := range txs {
				ids = append(ids, id)
			}
			sort.Slice(ids, func(i, j int) bool { return ids[i] < ids[j] })
			for _, id := range ids {
				x := txs[id]
				_, present := where[id]
				switch {
				case x.status == "pending" && !present:
					t.Fatalf("after %s: transfer %d (%s %s + tax %s of user %d) is neither in the pool nor in a batch, was not refunded and no executed-batch attestation burned it (faults fired: %v)\nhistory: %v",
						after, id, x.amount, x.denom, x.tax, x.sender, b.Fired, log)
				case x.status != "pending" && present:
					t.Fatalf("after %s: transfer %d is %s but still present in %s\nhistory: %v", after, id, x.status, where[id], log)
				}
			}
			for id, w := range where {
				if txs[id] == nil {
					t.Fatalf("after %s: unknown transfer %d in %s", after, id, w)
				}
			}
			for _, tk := range toks {
				want := sum[tk.denom]
				if want == nil {
					want = new(big.Int)
				}
				if got := balance(modAddr, tk.denom); got.Cmp(want) != 0 {
					t.Fatalf("after %s: escrow holds %s %s but pending transfers sum to %s (faults fired: %v)\nhistory: %v", after, got, tk.denom, want, b.Fired, log)
				}
				if got := k0Supply2(c, b, tk.denom); got.Cmp(supply[tk.denom]) != 0 {
					t.Fatalf("after %s: supply of %s is %s, expected %s (initial + attested deposits - executed batches)\nhistory: %v", after, tk.denom, got, supply[tk.denom], log)
				}
			}
		}
		pendingCount := func() int {
			n := 0
			for _, x := range txs {
				if x.status == "pending" {
					n++
				}
			}
			return n
		}
		// end block with reconciliation of attestations
		endBlock := func(t *rapid.T) {
			hadPending := pendingCount() > 0
			ctx := b.Ctx()
			before, _ := k.GetOutgoingTxBatches(ctx)
			exist := map[uint64]skywaytypes.InternalOutgoingTxBatch{}
			for _, bt := range before {
				exist[bt.BatchNonce] = bt
			}
			supplyBefore := map[string]*big.Int{}
			for _, tk := range toks {
				supplyBefore[tk.denom] = k0Supply2(c, b, tk.denom)
			}
			b.ResetFired()
			h := b.H
			b.EndBlock()
			fired := len(b.Fired) > 0
			if fired && hadPending {
				faultInEndBlockWithPending = true
			}
			// newly observed attestations
			atts, err := c.Attestations(c01Chain)
			_ = atts
			_ = err
			ctx = b.Ctx()
			var newly []uint64
			_ = k.IterateAttestations(ctx, c01Chain, false, func(_ []byte, att skywaytypes.Attestation) bool {
				cl, err := k.UnpackAttestationClaim(&att)
				if err == nil && att.Observed && !observed[cl.GetSkywayNonce()] {
					observed[cl.GetSkywayNonce()] = true
					newly = append(newly, cl.GetSkywayNonce())
				}
				return false
			})
			sort.Slice(newly, func(i, j int) bool { return newly[i] < newly[j] })
			after, _ := k.GetOutgoingTxBatches(ctx)
			still := map[uint64]bool{}
			for _, bt := range after {
				still[bt.BatchNonce] = true
				if _, ok := exist[bt.BatchNonce]; !ok {
					batchStage[bt.BatchNonce]++
				}
				if bt.GasEstimate > 0 && exist[bt.BatchNonce].GasEstimate == 0 {
					batchStage[bt.BatchNonce]++
				}
			}
			depositAmounts := map[string][]int64{}
			for _, n := range newly {
				cr := claims[n]
				switch cr.kind {
				case "executed":
					bt, existed := exist[cr.batch]
					applicable := existed && bt.BatchTimeout > cr.height
					gone := existed && !still[cr.batch]
					poolIDs := map[uint64]bool{}
					pl, _ := k.GetUnbatchedTransactions(ctx)
					for _, p := range pl {
						poolIDs[p.Id] = true
					}
					burned := gone
					if gone {
						for _, p := range bt.Transactions {
							if poolIDs[p.Id] {
								burned = false // cancelled back to the pool, not burned
							}
						}
					}
					if burned {
						if !applicable {
							t.Fatalf("batch %d was burned by an executed claim that was not applicable (existed=%v timeout=%d claimHeight=%d)", cr.batch, existed, bt.BatchTimeout, cr.height)
						}
						d := ""
						for _, p := range bt.Transactions {
							x := txs[p.Id]
							x.status = "burned"
							d = x.denom
							supply[d].Sub(supply[d], x.amount).Sub(supply[d], x.tax)
						}
						batchStage[cr.batch]++
						delete(exist, cr.batch) // a later claim about the same batch finds it gone
					} else if applicable && !fired {
						t.Fatalf("h=%d: executed-batch claim for batch %d was attested, applicable and no collaborator failed, but the batch was not burned\nhistory: %v", h, cr.batch, log)
					}
				case "deposit":
					for _, tk := range toks {
						if strings.EqualFold(tk.erc20, cr.erc20) {
							depositAmounts[tk.denom] = append(depositAmounts[tk.denom], cr.amount)
						}
					}
				}
			}
			// attested deposits of this end-block: minted once each (with a failed collaborator: each one entirely or not at all)
			for _, tk := range toks {
				d := tk.denom
				got := new(big.Int).Sub(k0Supply2(c, b, d), supply[d])
				amts := depositAmounts[d]
				okSum := false
				for mask := 0; mask < 1<<len(amts); mask++ {
					if !fired && mask != 1<<len(amts)-1 {
						continue
					}
					sum := new(big.Int)
					for i, a := range amts {
						if mask&(1<<i) != 0 {
							sum.Add(sum, big.NewInt(a))
						}
					}
					if sum.Cmp(got) == 0 {
						okSum = true
					}
				}
				if !okSum {
					t.Fatalf("h=%d: attested deposits %v of %s changed the supply by %s (faults fired %v)\nhistory: %v", h, amts, d, got, b.Fired, log)
				}
				supply[d].Add(supply[d], got)
			}
			for n, st := range batchStage {
				if st >= 2 {
					stages2 = true
				}
				_ = n
			}
			log = append(log, fmt.Sprintf("endBlock(h=%d,fired=%v,observed=%v,batches=%d)", h, b.Fired, newly, len(after)))
			check(t, fmt.Sprintf("endBlock(h=%d)", h))
		}

		t.Repeat(map[string]func(*rapid.T){
			"send": func(t *rapid.T) {
				ui := rapid.IntRange(0, 2).Draw(t, "user")
				tk := toks[rapid.IntRange(0, len(toks)-1).Draw(t, "token")]
				amt := rapid.OneOf(rapid.Int64Range(1, 20), rapid.Int64Range(1, 10_000_000), rapid.Just(int64(2_000_000_000))).Draw(t, "amount")
				u := users[ui]
				balBefore := balance(u.Addr, tk.denom)
				b.ResetFired()
				err := b.Tx(&skywaytypes.MsgSendToRemote{Metadata: chain.MD(u), EthDest: fmt.Sprintf("0x00000000000000000000000000000000000000d%d", ui+1), Amount: sdk.NewCoin(tk.denom, sdkmath.NewInt(amt)), ChainReferenceId: c01Chain})
				log = append(log, fmt.Sprintf("send(u%d,%s,%d)=%v", ui, tk.denom[len(tk.denom)-4:], amt, err == nil))
				if err == nil {
					// find the new transfer
					pool, _ := k.GetUnbatchedTransactions(b.Ctx())
					var nt *skywaytypes.InternalOutgoingTransferTx
					for _, p := range pool {
						if txs[p.Id] == nil {
							if nt != nil {
								t.Fatalf("one send created two pool entries")
							}
							nt = p
						}
					}
					if nt == nil {
						t.Fatalf("accepted send created no pool entry")
					}
					paid := new(big.Int).Sub(balBefore, balance(u.Addr, tk.denom))
					tax := nt.BridgeTaxAmount.BigInt()
					if paid.Cmp(new(big.Int).Add(big.NewInt(amt), tax)) != 0 || nt.Erc20Token.Amount.BigInt().Cmp(big.NewInt(amt)) != 0 {
						t.Fatalf("send of %d cost the sender %s, recorded amount %s tax %s", amt, paid, nt.Erc20Token.Amount, tax)
					}
					txs[nt.Id] = &c01Tx{id: nt.Id, sender: ui, denom: tk.denom, amount: big.NewInt(amt), tax: tax, status: "pending"}
				} else if balance(u.Addr, tk.denom).Cmp(balBefore) != 0 {
					t.Fatalf("failed send changed the sender's balance")
				}
				check(t, "send")
			},
			"cancel": func(t *rapid.T) {
				if len(txs) == 0 {
					t.Skip("nothing sent")
				}
				ids := make([]uint64, 0, len(txs))
				for id := range txs {
					ids = append(ids, id)
				}
				sort.Slice(ids, func(i, j int) bool { return ids[i] < ids[j] })
				id := rapid.SampledFrom(ids).Draw(t, "id")
				x := txs[id]
				ui := x.sender
				if rapid.IntRange(0, 4).Draw(t, "foreign") == 0 {
					ui = (ui + 1) % 3
				}
				u := users[ui]
				balBefore := balance(u.Addr, x.denom)
				b.ResetFired()
				err := b.Tx(&skywaytypes.MsgCancelSendToRemote{Metadata: chain.MD(u), TransactionId: id})
				log = append(log, fmt.Sprintf("cancel(u%d,id=%d)=%v", ui, id, err == nil))
				got := new(big.Int).Sub(balance(u.Addr, x.denom), balBefore)
				if err == nil {
					if ui != x.sender || x.status != "pending" {
						t.Fatalf("cancel of transfer %d (owner u%d, status %s) by u%d succeeded", id, x.sender, x.status, ui)
					}
					if got.Cmp(new(big.Int).Add(x.amount, x.tax)) != 0 {
						t.Fatalf("cancel refunded %s, expected amount %s + tax %s", got, x.amount, x.tax)
					}
					x.status = "refunded"
				} else if got.Sign() != 0 {
					t.Fatalf("failed cancel changed the balance by %s", got)
				}
				check(t, "cancel")
			},
			"endBlock": func(t *rapid.T) {
				switch rapid.IntRange(0, 3).Draw(t, "where") {
				case 0:
					b.JumpTo((b.H/50 + 1) * 50)
				}
				endBlock(t)
			},
			"passTime": func(t *rapid.T) {
				b.PassTime(time.Duration(rapid.SampledFrom([]int{60, 599, 601, 1200}).Draw(t, "seconds")) * time.Second)
				log = append(log, "passTime")
			},
			"estimate": func(t *rapid.T) {
				batches, _ := k.GetOutgoingTxBatches(b.Ctx())
				if len(batches) == 0 {
					t.Skip("no batch")
				}
				bt := batches[rapid.IntRange(0, len(batches)-1).Draw(t, "batch")]
				n := rapid.IntRange(1, len(c.Vals)).Draw(t, "howMany")
				okc := 0
				for _, v := range c.Vals[:n] {
					if b.Tx(&skywaytypes.MsgEstimateBatchGas{Metadata: chain.MD(v.Actor), Nonce: bt.BatchNonce, TokenContract: bt.TokenContract.GetAddress().Hex(), EthSigner: chain.EthAddr(v.EthKeys[c01Chain]).Hex(), Estimate: 50000}) == nil {
						okc++
					}
				}
				log = append(log, fmt.Sprintf("estimate(batch %d,%d/%d)", bt.BatchNonce, okc, n))
				check(t, "estimate")
			},
			"executedClaim": func(t *rapid.T) {
				batches, _ := k.GetOutgoingTxBatches(b.Ctx())
				if len(batches) == 0 {
					t.Skip("no batch")
				}
				bt := batches[rapid.IntRange(0, len(batches)-1).Draw(t, "batch")]
				n := rapid.SampledFrom([]int{2, 3, 4, 4}).Draw(t, "voters")
				height := uint64(1000)
				if rapid.IntRange(0, 4).Draw(t, "late") == 0 {
					height = bt.BatchTimeout + 1
				}
				skyNonce++
				okc := 0
				for _, v := range c.Vals[:n] {
					if b.Tx(&skywaytypes.MsgBatchSendToRemoteClaim{Metadata: chain.MD(v.Actor), Orchestrator: v.Addr.String(), EventNonce: skyNonce, SkywayNonce: skyNonce, EthBlockHeight: height + skyNonce, BatchNonce: bt.BatchNonce,
						TokenContract: bt.TokenContract.GetAddress().Hex(), ChainReferenceId: c01Chain, CompassId: "compass-1"}) == nil {
						okc++
					}
				}
				if okc == 0 {
					skyNonce--
				} else {
					claims[skyNonce] = claimRec{kind: "executed", batch: bt.BatchNonce, height: height + skyNonce}
				}
				log = append(log, fmt.Sprintf("executedClaim(n=%d,batch %d,height %d,%d/%d votes)", skyNonce, bt.BatchNonce, height, okc, n))
				check(t, "executedClaim")
			},
			// all validators report a batch as executed and, before the block ends, its timeout passes as well: the one
			// end-of-block run has both the attested execution and the timeout of the same batch on its hands
			"executedAndTimedOutInOneBlock": func(t *rapid.T) {
				batches, _ := k.GetOutgoingTxBatches(b.Ctx())
				if len(batches) == 0 {
					t.Skip("no batch")
				}
				bt := batches[rapid.IntRange(0, len(batches)-1).Draw(t, "batch")]
				skyNonce++
				okc := 0
				for _, v := range c.Vals {
					if b.Tx(&skywaytypes.MsgBatchSendToRemoteClaim{Metadata: chain.MD(v.Actor), Orchestrator: v.Addr.String(), EventNonce: skyNonce, SkywayNonce: skyNonce, EthBlockHeight: 1000 + skyNonce, BatchNonce: bt.BatchNonce,
						TokenContract: bt.TokenContract.GetAddress().Hex(), ChainReferenceId: c01Chain, CompassId: "compass-1"}) == nil {
						okc++
					}
				}
				if okc == 0 {
					skyNonce--
				} else {
					claims[skyNonce] = claimRec{kind: "executed", batch: bt.BatchNonce, height: 1000 + skyNonce}
				}
				b.PassTime(11 * time.Minute)
				log = append(log, fmt.Sprintf("executedClaim(n=%d,batch %d,%d/%d votes)+passTime(11m)", skyNonce, bt.BatchNonce, okc, len(c.Vals)))
				endBlock(t)
			},
			"depositClaim": func(t *rapid.T) {
				tk := toks[rapid.IntRange(0, len(toks)-1).Draw(t, "token")]
				erc20 := tk.erc20
				if rapid.IntRange(0, 5).Draw(t, "unknownToken") == 0 {
					erc20 = "0x00000000000000000000000000000000000000E9"
				}
				amt := int64(rapid.IntRange(1, 1_000_000).Draw(t, "amount"))
				recv := rapid.SampledFrom([]string{users[0].Addr.String(), users[1].Addr.String(), "garbage", authtypes.NewModuleAddress("bonded_tokens_pool").String()}).Draw(t, "receiver")
				n := rapid.SampledFrom([]int{2, 3, 4, 4}).Draw(t, "voters")
				skyNonce++
				// now and then the event is reported at a remote height below one already observed: the chain refuses to move
				// its remote-height record backwards, so such a claim can never take effect (and nothing of it may)
				remoteHeight := 1000 + skyNonce
				if rapid.IntRange(0, 7).Draw(t, "remoteHeightRollback") == 0 {
					remoteHeight = 500
				}
				okc := 0
				for _, v := range c.Vals[:n] {
					if b.Tx(&skywaytypes.MsgSendToPalomaClaim{Metadata: chain.MD(v.Actor), Orchestrator: v.Addr.String(), EventNonce: skyNonce, SkywayNonce: skyNonce, EthBlockHeight: remoteHeight, TokenContract: erc20, Amount: sdkmath.NewInt(amt),
						EthereumSender: "0x00000000000000000000000000000000000000b1", PalomaReceiver: recv, ChainReferenceId: c01Chain, CompassId: "compass-1"}) == nil {
						okc++
					}
				}
				if okc == 0 {
					skyNonce--
				} else {
					claims[skyNonce] = claimRec{kind: "deposit", erc20: erc20, amount: amt}
				}
				log = append(log, fmt.Sprintf("depositClaim(n=%d,%d,recv=%.10s,h=%d,%d/%d votes)", skyNonce, amt, recv, remoteHeight, okc, n))
				check(t, "depositClaim")
			},
			"housekeepingOp": func(t *rapid.T) {
				// the two operations the end-blocker starts on its own, called the way it calls them (directly on the
				// block context), with a collaborator failure armed: if the operation reports failure nothing may change
				tk := toks[rapid.IntRange(0, len(toks)-1).Draw(t, "token")]
				contract, err := skywaytypes.NewEthAddress(tk.erc20)
				if err != nil {
					t.Fatalf("addr: %v", err)
				}
				site := rapid.SampledFrom(bridge.Sites).Draw(t, "site")
				asPanic := rapid.IntRange(0, 2).Draw(t, "faultIsPanic") == 0
				if asPanic {
					b.ArmPanic(site, rapid.IntRange(1, 2).Draw(t, "kth"))
				} else {
					b.Arm(site, rapid.IntRange(1, 2).Draw(t, "kth"))
				}
				b.ResetFired()
				before := project.All(c, []string{"skyway", "bank"})
				var opErr error
				what := "build"
				batches, _ := k.GetOutgoingTxBatches(b.Ctx())
				func() {
					// the end blocker recovers a panic of its steps and carries on: for the caller that is a failed operation
					defer func() {
						if r := recover(); r != nil {
							opErr = fmt.Errorf("panic: %v", r)
						}
					}()
					if len(batches) > 0 && rapid.Bool().Draw(t, "cancel") {
						bt := batches[rapid.IntRange(0, len(batches)-1).Draw(t, "batch")]
						what = fmt.Sprintf("cancel(batch %d)", bt.BatchNonce)
						opErr = k.CancelOutgoingTXBatch(b.Ctx(), bt.TokenContract, bt.BatchNonce)
					} else {
						_, opErr = k.BuildOutgoingTXBatch(b.Ctx(), c01Chain, *contract, 100)
					}
				}()
				if asPanic {
					what += " [panic fault]"
				}
				b.Disarm()
				log = append(log, fmt.Sprintf("%s with fault at %s -> err=%v fired=%v", what, site, opErr != nil, b.Fired))
				if opErr != nil {
					if d := project.Diff(before, project.All(c, []string{"skyway", "bank"})); len(d) > 0 {
						t.Fatalf("%s reported failure (%v) but changed state:%s\nhistory: %v", what, opErr, project.Short(d, 6), log)
					}
					if len(b.Fired) > 0 && pendingCount() > 0 {
						faultInEndBlockWithPending = true
					}
				}
				check(t, what)
			},
			// validators replace their remote accounts (as MsgAddExternalChainInfoForValidator does): k of them lose the
			// account on the bridge's chain, the others have it (back). The snapshot still lists them as relayers, so a
			// batch build can select one whose remote address is then "not found" - a failure without an error value.
			"relayerAccounts": func(t *rapid.T) {
				lost := rapid.IntRange(0, len(c.Vals)).Draw(t, "withoutAccount")
				for i, v := range c.Vals {
					var infos []*vtypes.ExternalChainInfo
					if i >= lost {
						ea := chain.EthAddr(v.EthKeys[c01Chain])
						infos = []*vtypes.ExternalChainInfo{{ChainType: "evm", ChainReferenceID: c01Chain, Address: ea.Hex(), Pubkey: ea.Bytes()}}
					}
					if err := c.App.ValsetKeeper.AddExternalChainInfo(b.Ctx(), v.Val(), infos); err != nil {
						t.Fatalf("chain infos: %v", err)
					}
				}
				log = append(log, fmt.Sprintf("relayerAccounts(%d without)", lost))
				if lost > 0 {
					relayerWithoutAccount = true
				}
			},
			"changeTax": func(t *rapid.T) {
				tk := toks[rapid.IntRange(0, len(toks)-1).Draw(t, "token")]
				r := rapid.SampledFrom([]string{"0", "1/5", "0.0025", "7/3", "1/2"}).Draw(t, "rate")
				bt := &skywaytypes.BridgeTax{Token: tk.denom, Rate: r}
				if ex := rapid.IntRange(-1, 2).Draw(t, "exempt"); ex >= 0 {
					bt.ExemptAddresses = []sdk.AccAddress{users[ex].Addr}
				}
				if err := k.SetBridgeTax(b.Ctx(), bt); err != nil {
					t.Fatalf("tax: %v", err)
				}
				log = append(log, fmt.Sprintf("tax(%s,%s)", tk.denom[len(tk.denom)-4:], r))
			},
			"armFault": func(t *rapid.T) {
				site := rapid.SampledFrom(bridge.Sites).Draw(t, "site")
				kk := rapid.IntRange(1, 3).Draw(t, "kth")
				if rapid.IntRange(0, 2).Draw(t, "faultIsPanic") == 0 {
					b.ArmPanic(site, kk)
					log = append(log, fmt.Sprintf("armPanic(%s,%d)", site, kk))
				} else {
					b.Arm(site, kk)
					log = append(log, fmt.Sprintf("arm(%s,%d)", site, kk))
				}
			},
		})
		// drain: two more end-blocks without faults so that half-done housekeeping shows up
		b.Disarm()
		endBlock(t)
		labels := []string{fmt.Sprintf("transfers=%d", min(len(txs), 8))}
		if faultInEndBlockWithPending {
			labels = append(labels, "faultInEndBlockWithPending")
		}
		if stages2 {
			labels = append(labels, "batchWith>=2Stages")
		}
		if relayerWithoutAccount {
			labels = append(labels, "relayerWithoutAccount")
		}
		evid.Case(t.Name(), strings.Join(log, " "), faultInEndBlockWithPending || stages2, labels, func() any { return log })
	})
}

func bankSend(from, to chain.Actor, denom string, amt int64) sdk.Msg {
	return &banktypesMsgSend{FromAddress: from.Addr.String(), ToAddress: to.Addr.String(), Amount: sdk.NewCoins(sdk.NewCoin(denom, sdkmath.NewInt(amt)))}
}

func k0Supply(c *chain.Chain, denom string) *big.Int {
	return c.App.BankKeeper.GetSupply(c.Ctx(), denom).Amount.BigInt()
}

func k0Supply2(c *chain.Chain, b *bridge.Bridge, denom string) *big.Int {
	return c.App.BankKeeper.GetSupply(b.Ctx(), denom).Amount.BigInt()
}
