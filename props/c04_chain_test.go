package props

// C04 (on a full chain): the gas-estimate election as the chain really runs it - validators submit estimates through
// transactions, in any order, repeatedly, with changing values; the end blocker elects.

import (
	"encoding/json"
	"fmt"
	"math/big"
	"sort"
	"strings"
	"testing"

	sdk "github.com/cosmos/cosmos-sdk/types"
	"pgregory.net/rapid"

	consensustypes "github.com/palomachain/paloma/v2/x/consensus/types"
	evmtypes "github.com/palomachain/paloma/v2/x/evm/types"
	schedtypes "github.com/palomachain/paloma/v2/x/scheduler/types"

	"verif/harness/chain"
	"verif/harness/evid"
)

const c04Chain = "eth-main"

func TestC04_GasEstimateElectionOnChain(t *testing.T) {
	evid.Check(t, 40, 400, func(t *rapid.T) {
		salt := fmt.Sprintf("c04-%d", rapid.IntRange(0, 1<<30).Draw(t, "salt"))
		n := rapid.IntRange(3, 6).Draw(t, "nVals")
		stakes := make([]int64, n)
		switch rapid.SampledFrom([]string{"equal", "random", "thirds"}).Draw(t, "stakeFamily") {
		case "equal":
			for i := range stakes {
				stakes[i] = 100_000_000
			}
		case "thirds":
			// the first validators hold just below / exactly / just above one third or two thirds of the total
			for i := range stakes {
				stakes[i] = int64(rapid.SampledFrom([]int{33, 34, 66, 67, 100, 1}).Draw(t, "stake")) * 1_000_000
			}
		default:
			for i := range stakes {
				stakes[i] = int64(rapid.IntRange(1, 300).Draw(t, "stake")) * 1_000_000
			}
		}
		c, err := chain.New(chain.Options{Salt: salt, Stakes: stakes, Users: []string{"u"}, EvmChains: []chain.EvmChain{{RefID: c04Chain, ChainID: 1}}})
		if err != nil {
			t.Fatalf("boot: %v", err)
		}
		defer c.Close()
		if err := c.Ready(); err != nil {
			t.Fatalf("ready: %v", err)
		}
		u := c.Users["u"]
		def, _ := json.Marshal(evmtypes.JobDefinition{ABI: "[]", Address: "0x00000000000000000000000000000000000000aa"})
		pl, _ := json.Marshal(evmtypes.JobPayload{HexPayload: "0xdeadbeef"})
		res, err := c.Block(c.MustSign(u, &schedtypes.MsgCreateJob{Metadata: chain.MD(u), Job: &schedtypes.Job{ID: "j1", Routing: schedtypes.Routing{ChainType: "evm", ChainReferenceID: c04Chain}, Definition: def, Payload: pl}}),
			c.MustSign(u, &schedtypes.MsgExecuteJob{Metadata: chain.MD(u), JobID: "j1"}))
		if err != nil || res.TxResults[0].Code != 0 || res.TxResults[1].Code != 0 {
			t.Fatalf("job setup: %v %v", err, res)
		}
		q := chain.TurnstoneQueue(c04Chain)
		snap, err := c.App.ValsetKeeper.GetCurrentSnapshot(c.ReadCtx())
		if err != nil || snap == nil {
			t.Fatalf("snapshot: %v", err)
		}
		share := map[string]*big.Int{}
		for _, v := range snap.Validators {
			share[sdk.ValAddress(v.Address).String()] = v.ShareCount.BigInt()
		}
		total := snap.TotalShares.BigInt()
		find := func() consensustypes.QueuedSignedMessageI {
			ms, err := c.App.ConsensusKeeper.GetMessagesFromQueue(c.ReadCtx(), q, 0)
			if err != nil {
				t.Fatalf("queue: %v", err)
			}
			for _, m := range ms {
				if m.GetRequireGasEstimation() {
					return m
				}
			}
			return nil
		}
		m := find()
		if m == nil {
			t.Fatalf("no message awaiting estimation after the job execution")
		}
		id := m.GetId()
		submitted := map[string][]uint64{} // validator -> values whose submission succeeded, in order
		var log []string
		elected := uint64(0)
		resub, differing := 0, 0
		blocks := rapid.IntRange(1, 8).Draw(t, "blocks")
		for b := 0; b < blocks; b++ {
			k := rapid.IntRange(1, n).Draw(t, "submitters")
			type sub struct {
				v   *chain.Validator
				val uint64
			}
			var subs []sub
			var txs [][]byte
			for i := 0; i < k; i++ {
				v := c.Vals[rapid.IntRange(0, n-1).Draw(t, "v")]
				val := rapid.SampledFrom([]uint64{21000, 21100, 50000, 300000, 1, 1 << 40}).Draw(t, "value")
				subs = append(subs, sub{v, val})
				txs = append(txs, c.MustSign(v.Actor, &consensustypes.MsgAddMessageGasEstimates{Metadata: chain.MD(v.Actor), Estimates: []*consensustypes.MsgAddMessageGasEstimates_GasEstimate{{MsgId: id, QueueTypeName: q, Value: val, EstimatedByAddress: chain.EthAddr(v.EthKeys[c04Chain]).Hex()}}}))
			}
			res, err := c.Block(txs...)
			if err != nil {
				t.Fatalf("block: %v", err)
			}
			for i, s := range subs {
				ok := res.TxResults[i].Code == 0
				key := s.v.Val().String()
				if len(submitted[key]) > 0 {
					resub++
					if submitted[key][len(submitted[key])-1] != s.val {
						differing++
					}
				}
				if ok {
					submitted[key] = append(submitted[key], s.val)
				}
				log = append(log, fmt.Sprintf("b%d:v%d=%d:%v", b, s.v.Index, s.val, ok))
			}
			// judge the state after the block
			cur := find()
			if cur == nil || cur.GetId() != id {
				t.Fatalf("message %d disappeared from the queue (history %v)", id, log)
			}
			seen := map[string]bool{}
			sum := new(big.Int)
			var vals []uint64
			for _, ge := range cur.GetGasEstimates() {
				key := ge.ValAddress.String()
				if seen[key] {
					t.Fatalf("validator %s holds more than one gas estimate on message %d: %v (history %v)", key, id, cur.GetGasEstimates(), log)
				}
				seen[key] = true
				was := false
				for _, x := range submitted[key] {
					if x == ge.Value {
						was = true
					}
				}
				if !was {
					t.Fatalf("stored estimate %d of %s was never submitted by it (submitted %v)", ge.Value, key, submitted[key])
				}
				if s := share[key]; s != nil {
					sum.Add(sum, s)
				}
				vals = append(vals, ge.Value)
			}
			got := cur.GetGasEstimate()
			if elected != 0 && got != elected {
				t.Fatalf("elected gas estimate changed from %d to %d (history %v)", elected, got, log)
			}
			if got != 0 && elected == 0 {
				// election happened in this block: 2/3 of snapshot shares, distinct validators, within [min, max]
				if new(big.Int).Mul(sum, big.NewInt(3)).Cmp(new(big.Int).Mul(total, big.NewInt(2))) < 0 {
					t.Fatalf("estimate %d elected with distinct submitters holding %s of %s snapshot shares (< 2/3); stored %v (history %v)", got, sum, total, cur.GetGasEstimates(), log)
				}
				sort.Slice(vals, func(i, j int) bool { return vals[i] < vals[j] })
				if len(vals) == 0 || got < vals[0] || got > vals[len(vals)-1] {
					t.Fatalf("elected estimate %d outside the submitted range %v", got, vals)
				}
				var want uint64
				if len(vals)%2 == 1 {
					want = vals[len(vals)/2]
				} else {
					a, bb := new(big.Int).SetUint64(vals[len(vals)/2-1]), new(big.Int).SetUint64(vals[len(vals)/2])
					want = new(big.Int).Rsh(a.Add(a, bb), 1).Uint64()
				}
				if got != want {
					t.Fatalf("elected estimate %d is not the median %d of %v", got, want, vals)
				}
				elected = got
			}
			if got == 0 && new(big.Int).Mul(sum, big.NewInt(3)).Cmp(new(big.Int).Mul(total, big.NewInt(2))) >= 0 && len(vals) > 0 {
				t.Fatalf("no estimate elected although distinct submitters hold %s of %s shares (history %v)", sum, total, log)
			}
		}
		labels := []string{fmt.Sprintf("resubmissions=%d", min(resub, 5)), fmt.Sprintf("differingResubmissions=%d", min(differing, 5))}
		if elected != 0 {
			labels = append(labels, "elected")
		}
		evid.Case(t.Name(), fmt.Sprintf("stakes=%v %s", stakes, strings.Join(log, " ")), differing > 0, labels, func() any {
			return map[string]any{"stakes": stakes, "submissions": log, "elected": elected}
		})
	})
}
