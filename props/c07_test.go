package props

// C07 — a remote transaction proves delivery of exactly the message it carries, once.  The whole attestation path
// (evidence quorum -> end-blocker -> VerifyAgainstTX -> success effect) is driven on a full chain for validator-set
// updates, whose success effect (the snapshot becomes live on the chain) is directly observable; the proof is built
// by the harness's own compass ABI encoder and then corrupted in generated ways.

import (
	"fmt"
	"math/big"
	"sort"
	"strings"
	"testing"

	sdkmath "cosmossdk.io/math"
	codectypes "github.com/cosmos/cosmos-sdk/codec/types"
	sdk "github.com/cosmos/cosmos-sdk/types"
	stakingtypes "github.com/cosmos/cosmos-sdk/x/staking/types"
	"github.com/ethereum/go-ethereum/common"
	ethtypes "github.com/ethereum/go-ethereum/core/types"
	"pgregory.net/rapid"

	consensustypes "github.com/palomachain/paloma/v2/x/consensus/types"
	evmtypes "github.com/palomachain/paloma/v2/x/evm/types"
	vtypes "github.com/palomachain/paloma/v2/x/valset/types"

	"verif/harness/cabi"
	"verif/harness/chain"
	"verif/harness/evid"
)

const c07Chain = "eth-main"

// c07SigningValset renders snapshot as compass sees it: validators with an account on the chain ordered by share
// (descending; stakes are distinct in this test), power = floor(share*2^32/total).
func c07SigningValset(s *vtypes.Snapshot) (cabi.Valset, []string) {
	type e struct {
		addr  string
		share *big.Int
	}
	var es []e
	for _, v := range s.Validators {
		for _, x := range v.ExternalChainInfos {
			if x.ChainReferenceID == c07Chain {
				es = append(es, e{x.Address, v.ShareCount.BigInt()})
			}
		}
	}
	sort.SliceStable(es, func(i, j int) bool { return es[i].share.Cmp(es[j].share) > 0 })
	vs := cabi.Valset{ValsetId: cabi.U(s.Id)}
	var addrs []string
	for _, x := range es {
		p := new(big.Int).Mul(x.share, new(big.Int).Lsh(big.NewInt(1), 32))
		p.Quo(p, s.TotalShares.BigInt())
		vs.Validators = append(vs.Validators, common.HexToAddress(x.addr))
		vs.Powers = append(vs.Powers, p)
		addrs = append(addrs, x.addr)
	}
	return vs, addrs
}

func TestC07_OnlyTheMatchingTransactionProvesDelivery(t *testing.T) {
	evid.Check(t, 200, 1000, func(t *rapid.T) {
		salt := fmt.Sprintf("c07-%d", rapid.IntRange(0, 1<<30).Draw(t, "salt"))
		n := rapid.IntRange(3, 4).Draw(t, "nVals")
		stakes := make([]int64, n)
		for i := range stakes {
			stakes[i] = int64(100+7*i) * 1_000_000 // distinct shares: the compass ordering is unambiguous
		}
		c, err := chain.New(chain.Options{Salt: salt, Stakes: stakes, Users: []string{"alice"}, UserBalance: 1 << 50, EvmChains: []chain.EvmChain{{RefID: c07Chain, ChainID: 1}}})
		if err != nil {
			t.Fatalf("boot: %v", err)
		}
		defer c.Close()
		if err := c.Ready(); err != nil {
			t.Fatalf("ready: %v", err)
		}
		alice := c.Users["alice"]
		q := chain.TurnstoneQueue(c07Chain)
		var log []string
		blk := func(txs ...[]byte) []bool {
			res, err := c.Block(txs...)
			if err != nil {
				t.Fatalf("block: %v", err)
			}
			oks := make([]bool, len(txs))
			for i := range txs {
				oks[i] = res.TxResults[i].Code == 0
			}
			return oks
		}
		liveOn := func(id uint64) int {
			s, err := c.App.ValsetKeeper.FindSnapshotByID(c.ReadCtx(), id)
			if err != nil {
				t.Fatalf("snapshot %d: %v", id, err)
			}
			k := 0
			for _, ch := range s.Chains {
				if ch == c07Chain {
					k++
				}
			}
			return k
		}
		findValsetMsg := func() (consensustypes.QueuedSignedMessageI, *evmtypes.Message) {
			ms, _ := c.App.ConsensusKeeper.GetMessagesFromQueue(c.ReadCtx(), q, 0)
			for _, m := range ms {
				cm, _ := m.ConsensusMsg(c.App.AppCodec())
				if em, ok := cm.(*evmtypes.Message); ok {
					if _, ok := em.Action.(*evmtypes.Message_UpdateValset); ok {
						return m, em
					}
				}
			}
			return nil, nil
		}
		// bring a new snapshot into being and publish it: returns the queued message ready for relay (estimate elected, signed)
		unsignedMsg := rapid.IntRange(0, 11).Draw(t, "messageStillUnsigned") == 0
		prepare := func(gas uint64) (uint64, bool) {
			// change a stake by more than 1 % so that the new snapshot is worth keeping
			blk(c.MustSign(alice, stakingtypes.NewMsgDelegate(alice.Addr.String(), c.Vals[0].Val().String(), sdk.NewCoin(chain.BondDenom, sdkmath.NewInt(40_000_000)))))
			s, err := c.App.ValsetKeeper.TriggerSnapshotBuild(c.Ctx())
			if err != nil || s == nil {
				t.Fatalf("snapshot build: %v %v", err, s)
			}
			if err := c.App.EvmKeeper.PublishSnapshotToAllChains(c.Ctx(), s, true); err != nil {
				t.Fatalf("publish: %v", err)
			}
			blk()
			m, _ := findValsetMsg()
			if m == nil {
				return 0, false
			}
			var txs [][]byte
			for _, v := range c.Vals {
				txs = append(txs, c.MustSign(v.Actor, &consensustypes.MsgAddMessageGasEstimates{Metadata: chain.MD(v.Actor), Estimates: []*consensustypes.MsgAddMessageGasEstimates_GasEstimate{{MsgId: m.GetId(), QueueTypeName: q, Value: gas, EstimatedByAddress: chain.EthAddr(v.EthKeys[c07Chain]).Hex()}}}))
			}
			blk(txs...)
			m, _ = findValsetMsg()
			if m == nil || m.GetGasEstimate() == 0 {
				t.Fatalf("estimate not elected")
			}
			bz, err := m.GetBytesToSign(c.App.AppCodec())
			if err != nil {
				t.Fatalf("bytes: %v", err)
			}
			if unsignedMsg {
				// nobody has signed the message yet when the "proof" arrives
				return s.Id, true
			}
			txs = nil
			for _, v := range c.Vals {
				txs = append(txs, c.MustSign(v.Actor, &consensustypes.MsgAddMessagesSignatures{Metadata: chain.MD(v.Actor), SignedMessages: []*consensustypes.ConsensusMessageSignature{{Id: m.GetId(), QueueTypeName: q, Signature: chain.EthSign(v.EthKeys[c07Chain], bz), SignedByAddress: chain.EthAddr(v.EthKeys[c07Chain]).Hex()}}}))
			}
			for i, ok := range blk(txs...) {
				if !ok {
					t.Fatalf("signature %d rejected: %s", i, c.LastRes.TxResults[i].Log)
				}
			}
			return s.Id, true
		}
		// the call data that delivers the message, built by the harness
		type proofArgs struct {
			cons    cabi.Consensus
			newVS   cabi.Valset
			relayer common.Address
			gas     *big.Int
		}
		honest := func(m consensustypes.QueuedSignedMessageI, em *evmtypes.Message, signingID uint64, prefix int) proofArgs {
			snap, err := c.App.ValsetKeeper.FindSnapshotByID(c.ReadCtx(), signingID)
			if err != nil {
				t.Fatalf("signing snapshot: %v", err)
			}
			vs, addrs := c07SigningValset(snap)
			cons := cabi.Consensus{Valset: vs}
			sd := m.GetSignData()[:prefix]
			for _, a := range addrs {
				var found *consensustypes.SignData
				for _, s := range sd {
					if strings.EqualFold(s.ExternalAccountAddress, a) {
						found = s
					}
				}
				if found == nil {
					cons.Signatures = append(cons.Signatures, cabi.Sig{V: big.NewInt(0), R: big.NewInt(0), S: big.NewInt(0)})
				} else {
					cons.Signatures = append(cons.Signatures, cabi.Sig{V: big.NewInt(int64(found.Signature[64]) + 27), R: new(big.Int).SetBytes(found.Signature[:32]), S: new(big.Int).SetBytes(found.Signature[32:64])})
				}
			}
			uv := em.Action.(*evmtypes.Message_UpdateValset).UpdateValset.Valset
			nv := cabi.Valset{ValsetId: cabi.U(uv.ValsetID)}
			for i, a := range uv.Validators {
				nv.Validators = append(nv.Validators, common.HexToAddress(a))
				nv.Powers = append(nv.Powers, cabi.U(uv.Powers[i]))
			}
			return proofArgs{cons, nv, common.HexToAddress(em.AssigneeRemoteAddress), cabi.U(m.GetGasEstimate())}
		}
		encode := func(p proofArgs) []byte {
			data, err := cabi.UpdateValset(p.cons, p.newVS, p.relayer, p.gas)
			if err != nil {
				t.Fatalf("encode: %v", err)
			}
			return data
		}
		// submit the proof: assignee reports the tx, the chosen validators supply the evidence
		// per-voter receipt override (k = position in the submission order); nil = everybody supplies the same receipt
		var receiptOfVoter func(k int, def *ethtypes.Receipt) *ethtypes.Receipt
		submit := func(m consensustypes.QueuedSignedMessageI, em *evmtypes.Message, signingID uint64, data []byte, receipt *ethtypes.Receipt, voters []int, altData []byte) {
			var assignee *chain.Validator
			for _, v := range c.Vals {
				if v.Val().String() == em.Assignee {
					assignee = v
				}
			}
			mk := func(d []byte, receipt *ethtypes.Receipt) *codectypes.Any {
				tx := ethtypes.NewTx(&ethtypes.LegacyTx{Nonce: 9, To: &common.Address{0xc1}, Gas: 500000, GasPrice: big.NewInt(1), Data: d})
				txbz, _ := tx.MarshalBinary()
				p := &evmtypes.TxExecutedProof{SerializedTX: txbz}
				if receipt != nil {
					p.SerializedReceipt, _ = receipt.MarshalBinary()
				}
				a, _ := codectypes.NewAnyWithValue(p)
				return a
			}
			blk(c.MustSign(assignee.Actor, &consensustypes.MsgSetPublicAccessData{Metadata: chain.MD(assignee.Actor), MessageID: m.GetId(), QueueTypeName: q, Data: []byte{0xaa}, ValsetID: signingID}))
			var txs [][]byte
			for k, i := range voters {
				d := data
				if altData != nil && k%2 == 1 {
					d = altData
				}
				v := c.Vals[i]
				rc := receipt
				if receiptOfVoter != nil {
					rc = receiptOfVoter(k, receipt)
				}
				txs = append(txs, c.MustSign(v.Actor, &consensustypes.MsgAddEvidence{Metadata: chain.MD(v.Actor), Proof: mk(d, rc), MessageID: m.GetId(), QueueTypeName: q}))
			}
			blk(txs...)
			blk()
		}

		// the snapshot compass currently knows (made live by the setup fixture)
		onChain, err := c.App.ValsetKeeper.GetLatestSnapshotOnChain(c.ReadCtx(), c07Chain)
		if err != nil {
			t.Fatalf("no snapshot live on the chain: %v", err)
		}
		signingID := onChain.Id
		gas := uint64(rapid.IntRange(21000, 900000).Draw(t, "gas"))
		newID, ok := prepare(gas)
		if !ok {
			t.Fatalf("no validator-set update was queued")
		}
		m, em := findValsetMsg()
		nsig := len(m.GetSignData())
		variant := rapid.SampledFrom([]string{"valid", "valid", "validShorterPrefix", "power+1", "memberChanged", "valsetID+1", "otherRelayer", "gas+1", "sigR", "sigSwap", "otherSelector", "truncated", "extended",
			"receiptFailed", "missingReceipt", "belowQuorum", "splitEvidence", "splitReceiptStatus", "replayForSecondMessage"}).Draw(t, "variant")
		if unsignedMsg {
			// with no signature collected nothing can be the message's delivery: an unrelated call, a truncated one, or the
			// right call with an all-zero signature block
			variant = rapid.SampledFrom([]string{"otherSelector", "truncated", "unsignedRightCall"}).Draw(t, "unsignedVariant")
		}
		all := make([]int, n)
		for i := range all {
			all[i] = i
		}
		p := honest(m, em, signingID, nsig)
		receipt := &ethtypes.Receipt{Status: 1, CumulativeGasUsed: 100000}
		voters := all
		var alt []byte
		expectEffect := false
		singleArg := false
		switch variant {
		case "valid":
			expectEffect = true
		case "validShorterPrefix":
			k := rapid.IntRange(1, nsig).Draw(t, "prefix")
			p = honest(m, em, signingID, k)
			expectEffect = true
		case "power+1":
			i := rapid.IntRange(0, len(p.newVS.Powers)-1).Draw(t, "i")
			p.newVS.Powers[i] = new(big.Int).Add(p.newVS.Powers[i], big.NewInt(1))
			singleArg = true
		case "memberChanged":
			p.newVS.Validators[0] = common.HexToAddress("0x00000000000000000000000000000000000000ee")
			singleArg = true
		case "valsetID+1":
			p.newVS.ValsetId = new(big.Int).Add(p.newVS.ValsetId, big.NewInt(1))
			singleArg = true
		case "otherRelayer":
			p.relayer = common.HexToAddress("0x00000000000000000000000000000000000000ef")
			singleArg = true
		case "gas+1":
			p.gas = new(big.Int).Add(p.gas, big.NewInt(1))
			singleArg = true
		case "sigR":
			p.cons.Signatures[0].R = new(big.Int).Add(p.cons.Signatures[0].R, big.NewInt(1))
			singleArg = true
		case "sigSwap":
			p.cons.Signatures[0], p.cons.Signatures[1] = p.cons.Signatures[1], p.cons.Signatures[0]
		case "receiptFailed":
			receipt = &ethtypes.Receipt{Status: 0, CumulativeGasUsed: 100000}
		case "missingReceipt":
			receipt = nil
		case "belowQuorum":
			voters = all[:1]
		case "splitReceiptStatus":
			// the same transaction, but only the first k submitters report a successful receipt, the others a failed one
			// that is identical otherwise
			okVoters := rapid.IntRange(1, n-1).Draw(t, "successReporters")
			receiptOfVoter = func(k int, def *ethtypes.Receipt) *ethtypes.Receipt {
				if k < okVoters {
					return def
				}
				return &ethtypes.Receipt{Status: 0, CumulativeGasUsed: def.CumulativeGasUsed}
			}
			cur, _ := c.App.ValsetKeeper.GetCurrentSnapshot(c.ReadCtx())
			group := new(big.Int)
			for k, i := range voters {
				if k >= okVoters {
					continue
				}
				for _, sv := range cur.Validators {
					if sv.Address.Equals(c.Vals[i].Val()) {
						group.Add(group, sv.ShareCount.BigInt())
					}
				}
			}
			expectEffect = new(big.Int).Mul(group, big.NewInt(3)).Cmp(new(big.Int).Mul(cur.TotalShares.BigInt(), big.NewInt(2))) >= 0
		}
		data := encode(p)
		switch variant {
		case "otherSelector":
			copy(data[:4], cabi.Compass.Methods["submit_batch"].ID)
		case "truncated":
			data = data[:len(data)-32]
		case "extended":
			data = append(data, make([]byte, 32)...)
		case "splitEvidence":
			q2 := honest(m, em, signingID, nsig)
			q2.gas = new(big.Int).Add(q2.gas, big.NewInt(1))
			alt = encode(q2)
		}
		// quorum of the group that supplies the (possibly valid) main proof, in shares of the current snapshot
		if variant == "splitEvidence" || variant == "belowQuorum" {
			cur, _ := c.App.ValsetKeeper.GetCurrentSnapshot(c.ReadCtx())
			group := new(big.Int)
			for k, i := range voters {
				if alt != nil && k%2 == 1 {
					continue
				}
				for _, sv := range cur.Validators {
					if sv.Address.Equals(c.Vals[i].Val()) {
						group.Add(group, sv.ShareCount.BigInt())
					}
				}
			}
			expectEffect = new(big.Int).Mul(group, big.NewInt(3)).Cmp(new(big.Int).Mul(cur.TotalShares.BigInt(), big.NewInt(2))) >= 0
		}
		if variant == "replayForSecondMessage" {
			// deliver the first message properly, then publish the same validator set again and offer the very same tx.
			// "bootstrap" variant: the relayer reports no validator-set id (as for the first deployment on a chain), the
			// call data then carries an empty consensus block.
			bootstrap := rapid.Bool().Draw(t, "bootstrapNoValsetID")
			if bootstrap {
				signingID = 0
				p.cons = cabi.EmptyConsensus()
				data = encode(p)
			}
			submit(m, em, signingID, data, receipt, all, nil)
			if liveOn(newID) != 1 {
				if bootstrap {
					evid.Case(t.Name(), "replay: delivery without validator-set id not accepted", false, []string{"replay:bootstrapNotAccepted"}, nil)
					return
				}
				t.Fatalf("valid proof for message %d was not accepted (snapshot %d live on chain %d times)\nhistory: %v", m.GetId(), newID, liveOn(newID), log)
			}
			s2, _ := c.App.ValsetKeeper.FindSnapshotByID(c.ReadCtx(), newID)
			if err := c.App.EvmKeeper.PublishSnapshotToAllChains(c.Ctx(), s2, true); err != nil {
				t.Fatalf("publish: %v", err)
			}
			blk()
			m2, em2 := findValsetMsg()
			if m2 == nil {
				evid.Case(t.Name(), "replay: no second message", false, []string{"replay:noSecondMessage"}, nil)
				return
			}
			var txs [][]byte
			for _, v := range c.Vals {
				txs = append(txs, c.MustSign(v.Actor, &consensustypes.MsgAddMessageGasEstimates{Metadata: chain.MD(v.Actor), Estimates: []*consensustypes.MsgAddMessageGasEstimates_GasEstimate{{MsgId: m2.GetId(), QueueTypeName: q, Value: gas, EstimatedByAddress: chain.EthAddr(v.EthKeys[c07Chain]).Hex()}}}))
			}
			blk(txs...)
			m2, em2 = findValsetMsg()
			bz, _ := m2.GetBytesToSign(c.App.AppCodec())
			txs = nil
			for _, v := range c.Vals {
				txs = append(txs, c.MustSign(v.Actor, &consensustypes.MsgAddMessagesSignatures{Metadata: chain.MD(v.Actor), SignedMessages: []*consensustypes.ConsensusMessageSignature{{Id: m2.GetId(), QueueTypeName: q, Signature: chain.EthSign(v.EthKeys[c07Chain], bz), SignedByAddress: chain.EthAddr(v.EthKeys[c07Chain]).Hex()}}}))
			}
			blk(txs...)
			sameRelayer := strings.EqualFold(em2.AssigneeRemoteAddress, em.AssigneeRemoteAddress)
			// the relayer of the second message may also report no validator-set id at all (as during chain bootstrap)
			replayID := signingID
			if !bootstrap && rapid.IntRange(0, 3).Draw(t, "replayWithoutValsetID") == 0 {
				replayID = 0
			}
			submit(m2, em2, replayID, data, receipt, all, nil)
			if got := liveOn(newID); got != 1 {
				t.Fatalf("the transaction already accepted for message %d was accepted again for message %d: snapshot %d marked live %d times\nhistory: %v", m.GetId(), m2.GetId(), newID, got, log)
			}
			evid.Case(t.Name(), fmt.Sprintf("replay sameRelayer=%v gas=%d n=%d", sameRelayer, gas, n), true, []string{"replay", fmt.Sprintf("replay:sameRelayer=%v", sameRelayer), fmt.Sprintf("replay:valsetID=%v", replayID != 0), fmt.Sprintf("replay:bootstrap=%v", bootstrap)}, func() any {
				return map[string]any{"variant": variant, "secondMessageHasSameRelayer": sameRelayer}
			})
			return
		}
		before := liveOn(newID)
		submit(m, em, signingID, data, receipt, voters, alt)
		after := liveOn(newID)
		log = append(log, fmt.Sprintf("variant=%s live %d->%d", variant, before, after))
		if expectEffect && after != before+1 {
			t.Fatalf("%s: the transaction carrying exactly the bridge-contract encoding of message %d with a successful receipt and evidence from all validators was not accepted (snapshot %d live %d -> %d)", variant, m.GetId(), newID, before, after)
		}
		if !expectEffect && after != before {
			t.Fatalf("%s: a transaction that is not a successful delivery of message %d made validator snapshot %d live on %s", variant, m.GetId(), newID, c07Chain)
		}
		evid.Case(t.Name(), fmt.Sprintf("%s gas=%d n=%d sigs=%d", variant, gas, n, nsig), singleArg || variant == "valid" || variant == "validShorterPrefix", []string{"variant:" + variant}, func() any {
			return map[string]any{"variant": variant, "calldata": fmt.Sprintf("%x", data[:min(len(data), 100)]), "effect": after != before}
		})
	})
}
