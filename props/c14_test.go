package props

// C14 — messages are assigned to, and only relayable by, an eligible relayer; relay gating; fee formula.

import (
	"bytes"
	"encoding/json"
	"fmt"
	"math/big"
	"sort"
	"strings"
	"testing"

	sdkmath "cosmossdk.io/math"
	sdk "github.com/cosmos/cosmos-sdk/types"
	"pgregory.net/rapid"

	consensustypes "github.com/palomachain/paloma/v2/x/consensus/types"
	evmtypes "github.com/palomachain/paloma/v2/x/evm/types"
	schedtypes "github.com/palomachain/paloma/v2/x/scheduler/types"
	treasurytypes "github.com/palomachain/paloma/v2/x/treasury/types"
	vtypes "github.com/palomachain/paloma/v2/x/valset/types"

	"verif/harness/chain"
	"verif/harness/evid"
)

type c14Val struct {
	acct map[string]bool
	fee  map[string]string // chain -> multiplicator (as set)
	mev  map[string]bool
}

func c14Ceil(r *big.Rat) *big.Int {
	q := new(big.Int).Quo(r.Num(), r.Denom())
	if new(big.Int).Mul(q, r.Denom()).Cmp(r.Num()) != 0 && r.Sign() > 0 {
		q.Add(q, big.NewInt(1))
	}
	return q
}

func TestC14_AssignmentRelayGatingFees(t *testing.T) {
	evid.Check(t, 100, 500, func(t *rapid.T) {
		salt := fmt.Sprintf("c14-%d", rapid.IntRange(0, 1<<30).Draw(t, "salt"))
		n := rapid.IntRange(3, 6).Draw(t, "nVals")
		stakes := make([]int64, n)
		for i := range stakes {
			stakes[i] = int64(rapid.IntRange(90, 110).Draw(t, "stake")) * 1_000_000
		}
		chains := []chain.EvmChain{{RefID: "eth-main", ChainID: 1}, {RefID: "bnb-main", ChainID: 56}}
		cf := rapid.SampledFrom([]string{"0.01", "0.3", "1.5", "0.000001"}).Draw(t, "communityFee")
		sf := rapid.SampledFrom([]string{"0.01", "0.05", "2"}).Draw(t, "securityFee")
		c, err := chain.New(chain.Options{Salt: salt, Stakes: stakes, Users: []string{"ua", "ub"}, EvmChains: chains, CommunityFee: cf, SecurityFee: sf})
		if err != nil {
			t.Fatalf("boot: %v", err)
		}
		defer c.Close()
		if _, err := c.Block(); err != nil {
			t.Fatalf("block: %v", err)
		}
		users := []chain.Actor{c.Users["ua"], c.Users["ub"]}
		mults := []string{"1.1", "2", "0.5", "1.000000000000000001", "3.7"}
		vals := make([]*c14Val, n)
		regTx := func(i int) []byte {
			v, m := c.Vals[i], vals[i]
			var infos []*vtypes.ExternalChainInfo
			var fees []treasurytypes.RelayerFeeSetting_FeeSetting
			for _, ch := range chains {
				if m.acct[ch.RefID] {
					ea := chain.EthAddr(v.EthKeys[ch.RefID])
					info := &vtypes.ExternalChainInfo{ChainType: "evm", ChainReferenceID: ch.RefID, Address: ea.Hex(), Pubkey: ea.Bytes()}
					if m.mev[ch.RefID] {
						info.Traits = []string{vtypes.PIGEON_TRAIT_MEV}
					}
					infos = append(infos, info)
				}
				if f, ok := m.fee[ch.RefID]; ok {
					fees = append(fees, treasurytypes.RelayerFeeSetting_FeeSetting{ChainReferenceId: ch.RefID, Multiplicator: sdkmath.LegacyMustNewDecFromStr(f)})
				}
			}
			msgs := []sdk.Msg{&vtypes.MsgKeepAlive{Metadata: chain.MD(v.Actor), PigeonVersion: "v2.0.0"}, &vtypes.MsgAddExternalChainInfoForValidator{Metadata: chain.MD(v.Actor), ChainInfos: infos}}
			if len(fees) > 0 {
				msgs = append(msgs, &treasurytypes.MsgUpsertRelayerFee{Metadata: chain.MD(v.Actor), FeeSetting: &treasurytypes.RelayerFeeSetting{ValAddress: v.Val().String(), Fees: fees}})
			}
			return c.MustSign(v.Actor, msgs...)
		}
		var txs [][]byte
		oneReason := false
		for i := range vals {
			m := &c14Val{acct: map[string]bool{}, fee: map[string]string{}, mev: map[string]bool{}}
			for _, ch := range chains {
				// every validator has all accounts (so it stays in snapshots once chains are active); eligibility varies by fee / MEV / metrics
				m.acct[ch.RefID] = true
				if i == 0 || rapid.IntRange(0, 3).Draw(t, "hasFee") > 0 {
					m.fee[ch.RefID] = rapid.SampledFrom(mults).Draw(t, "mult")
				} else {
					oneReason = true
				}
				m.mev[ch.RefID] = rapid.IntRange(0, 2).Draw(t, "mev") == 0
			}
			vals[i] = m
			txs = append(txs, regTx(i))
		}
		res, err := c.Block(txs...)
		if err != nil {
			t.Fatalf("block: %v", err)
		}
		for i, r := range res.TxResults {
			if r.Code != 0 {
				t.Fatalf("register %d: %s", i, r.Log)
			}
		}
		if _, err := c.App.ValsetKeeper.TriggerSnapshotBuild(c.Ctx()); err != nil {
			t.Fatalf("snapshot: %v", err)
		}
		if err := c.ActivateAll("compass-1"); err != nil {
			t.Fatalf("activate: %v", err)
		}
		// jobs
		def, _ := json.Marshal(evmtypes.JobDefinition{ABI: "[]", Address: "0x00000000000000000000000000000000000000aa"})
		pl, _ := json.Marshal(evmtypes.JobPayload{HexPayload: "0xdeadbeef"})
		var jtx [][]byte
		type jobInfo struct {
			ref string
			mev bool
		}
		jobs := map[string]jobInfo{}
		for _, ch := range chains {
			for _, mev := range []bool{false, true} {
				id := fmt.Sprintf("j-%s-%v", ch.RefID[:3], mev)
				jobs[id] = jobInfo{ch.RefID, mev}
				jtx = append(jtx, c.MustSign(users[0], &schedtypes.MsgCreateJob{Metadata: chain.MD(users[0]), Job: &schedtypes.Job{ID: id, Routing: schedtypes.Routing{ChainType: "evm", ChainReferenceID: ch.RefID}, Definition: def, Payload: pl, EnforceMEVRelay: mev}}))
			}
		}
		res, err = c.Block(jtx...)
		if err != nil {
			t.Fatalf("block: %v", err)
		}
		for i, r := range res.TxResults {
			if r.Code != 0 {
				t.Fatalf("create job %d: %s", i, r.Log)
			}
		}
		jobIDs := make([]string, 0, len(jobs))
		for id := range jobs {
			jobIDs = append(jobIDs, id)
		}
		sort.Strings(jobIDs)

		var log []string
		known := map[string]map[uint64]bool{}
		for _, ch := range chains {
			known[ch.RefID] = map[uint64]bool{}
		}
		multAtAssign := map[uint64]string{}
		twoFromSender := false
		feeChecked := 0

		// eligibility of validator i for chain ref (as of the current stored state)
		eligible := func(i int, ref string, mev bool) bool {
			ctx := c.ReadCtx()
			snap, err := c.App.ValsetKeeper.GetCurrentSnapshot(ctx)
			if err != nil || snap == nil {
				return false
			}
			v := c.Vals[i]
			inSnap := false
			for _, sv := range snap.Validators {
				if !sv.Address.Equals(v.Val()) {
					continue
				}
				for _, e := range sv.ExternalChainInfos {
					if e.ChainReferenceID == ref {
						hasMev := false
						for _, tr := range e.Traits {
							if tr == vtypes.PIGEON_TRAIT_MEV {
								hasMev = true
							}
						}
						if !mev || hasMev {
							inSnap = true
						}
					}
				}
			}
			if !inSnap {
				return false
			}
			fees, err := c.App.TreasuryKeeper.GetRelayerFeesByChainReferenceID(ctx, ref)
			if err != nil {
				return false
			}
			if _, ok := fees[v.Val().String()]; !ok {
				return false
			}
			m, err := c.App.MetrixKeeper.GetValidatorMetrics(ctx, v.Val())
			return err == nil && m != nil
		}
		anyEligible := func(ref string, mev bool) bool {
			for i := range c.Vals {
				if eligible(i, ref, mev) {
					return true
				}
			}
			return false
		}
		queueMsgs := func(ref string) []consensustypes.QueuedSignedMessageI {
			ms, err := c.App.ConsensusKeeper.GetMessagesFromQueue(c.ReadCtx(), chain.TurnstoneQueue(ref), 0)
			if err != nil {
				t.Fatalf("queue: %v", err)
			}
			return ms
		}
		evm := func(m consensustypes.QueuedSignedMessageI) *evmtypes.Message {
			cm, err := m.ConsensusMsg(c.App.AppCodec())
			if err != nil {
				t.Fatalf("unpack: %v", err)
			}
			return cm.(*evmtypes.Message)
		}
		// (A) judge new messages; eligibility snapshot must be taken BEFORE the block (state the assigner saw)
		type elig struct{ plain, mev []bool }
		snapshotElig := func() map[string]elig {
			out := map[string]elig{}
			for _, ch := range chains {
				e := elig{make([]bool, n), make([]bool, n)}
				for i := range c.Vals {
					e.plain[i] = eligible(i, ch.RefID, false)
					e.mev[i] = eligible(i, ch.RefID, true)
				}
				out[ch.RefID] = e
			}
			return out
		}
		judgeNew := func(t *rapid.T, before map[string]elig) int {
			cnt := 0
			for _, ch := range chains {
				for _, m := range queueMsgs(ch.RefID) {
					if known[ch.RefID][m.GetId()] {
						continue
					}
					known[ch.RefID][m.GetId()] = true
					em := evm(m)
					if em.Assignee == "" {
						continue
					}
					cnt++
					mev := false
					if slc := em.GetSubmitLogicCall(); slc != nil {
						mev = slc.ExecutionRequirements.EnforceMEVRelay
					}
					idx := -1
					for i, v := range c.Vals {
						if v.Val().String() == em.Assignee {
							idx = i
						}
					}
					if idx < 0 {
						t.Fatalf("message %d assigned to unknown validator %s", m.GetId(), em.Assignee)
					}
					ok := before[ch.RefID].plain[idx]
					if mev {
						ok = before[ch.RefID].mev[idx]
					}
					if !ok {
						t.Fatalf("message %d on %s (MEV required: %v) assigned to v%d, which is not eligible (in snapshot with an account there, fee record, metrics record, MEV trait if required)\nhistory: %v", m.GetId(), ch.RefID, mev, idx, log)
					}
					want := chain.EthAddr(c.Vals[idx].EthKeys[ch.RefID]).Hex()
					if !strings.EqualFold(em.AssigneeRemoteAddress, want) {
						t.Fatalf("message %d: relayer address %s, assignee v%d's account on %s is %s", m.GetId(), em.AssigneeRemoteAddress, idx, ch.RefID, want)
					}
					multAtAssign[m.GetId()] = vals[idx].fee[ch.RefID]
				}
			}
			return cnt
		}
		// (B) relay gating
		checkRelay := func(t *rapid.T) {
			for _, ch := range chains {
				q := chain.TurnstoneQueue(ch.RefID)
				all := queueMsgs(ch.RefID)
				var firstValset uint64
				for _, m := range all {
					if _, ok := evm(m).Action.(*evmtypes.Message_UpdateValset); ok && firstValset == 0 {
						firstValset = m.GetId()
					}
				}
				bySender := map[string]int{}
				for _, m := range all {
					if slc := evm(m).GetSubmitLogicCall(); slc != nil {
						bySender[string(slc.SenderAddress)]++
						if bySender[string(slc.SenderAddress)] >= 2 {
							twoFromSender = true
						}
					}
				}
				for _, v := range c.Vals {
					offered, err := c.App.ConsensusKeeper.GetMessagesForRelaying(c.ReadCtx(), q, v.Val())
					if err != nil {
						t.Fatalf("relaying query: %v", err)
					}
					for _, m := range offered {
						em := evm(m)
						what := fmt.Sprintf("message %d on %s offered to v%d for relay", m.GetId(), ch.RefID, v.Index)
						if em.Assignee != v.Val().String() {
							t.Fatalf("%s but its assignee is %s", what, em.Assignee)
						}
						if m.GetRequireGasEstimation() && m.GetGasEstimate() == 0 {
							t.Fatalf("%s before its gas estimate was elected", what)
						}
						if m.GetPublicAccessData() != nil || m.GetErrorData() != nil {
							t.Fatalf("%s although it already has a delivery / error report", what)
						}
						if firstValset != 0 && firstValset < m.GetId() {
							t.Fatalf("%s ahead of the older pending validator-set update %d", what, firstValset)
						}
						if slc := em.GetSubmitLogicCall(); slc != nil && len(slc.SenderAddress) > 0 {
							for _, o := range all {
								if o.GetId() >= m.GetId() {
									continue
								}
								oslc := evm(o).GetSubmitLogicCall()
								if oslc != nil && bytes.Equal(oslc.SenderAddress, slc.SenderAddress) && o.GetPublicAccessData() == nil && o.GetErrorData() == nil {
									t.Fatalf("%s while the older message %d of the same sender is still pending", what, o.GetId())
								}
							}
						}
					}
				}
			}
		}
		// (C) fees of messages whose estimate was elected
		checkFees := func(t *rapid.T) {
			for _, ch := range chains {
				for _, m := range queueMsgs(ch.RefID) {
					em := evm(m)
					slc := em.GetSubmitLogicCall()
					if slc == nil || m.GetGasEstimate() == 0 {
						continue
					}
					if slc.Fees == nil {
						t.Fatalf("message %d on %s has an elected gas estimate (%d) but no fees attached\nhistory: %v", m.GetId(), ch.RefID, m.GetGasEstimate(), log)
					}
					idx := -1
					for i, v := range c.Vals {
						if v.Val().String() == em.Assignee {
							idx = i
						}
					}
					mult, ok := new(big.Rat).SetString(vals[idx].fee[ch.RefID])
					if !ok {
						continue
					}
					if mult.Sign() == 0 {
						continue // the fee was withdrawn after the election; the attached fees were computed with the earlier multiplicator
					}
					gas := new(big.Rat).SetInt(new(big.Int).SetUint64(m.GetGasEstimate()))
					rel := c14Ceil(new(big.Rat).Mul(mult, gas))
					crat, _ := new(big.Rat).SetString(cf)
					srat, _ := new(big.Rat).SetString(sf)
					com := c14Ceil(new(big.Rat).Mul(crat, new(big.Rat).SetInt(rel)))
					sec := c14Ceil(new(big.Rat).Mul(srat, new(big.Rat).SetInt(rel)))
					if new(big.Int).SetUint64(slc.Fees.RelayerFee).Cmp(rel) != 0 || new(big.Int).SetUint64(slc.Fees.CommunityFee).Cmp(com) != 0 || new(big.Int).SetUint64(slc.Fees.SecurityFee).Cmp(sec) != 0 {
						t.Fatalf("message %d: fees %+v, expected relayer ceil(%s*%d)=%s community ceil(%s*relayer)=%s security ceil(%s*relayer)=%s", m.GetId(), slc.Fees, vals[idx].fee[ch.RefID], m.GetGasEstimate(), rel, cf, com, sf, sec)
					}
					feeChecked++
				}
			}
		}
		judgeNew(t, snapshotElig())

		t.Repeat(map[string]func(*rapid.T){
			"executeJob": func(t *rapid.T) {
				id := rapid.SampledFrom(jobIDs).Draw(t, "job")
				u := rapid.SampledFrom(users).Draw(t, "user")
				j := jobs[id]
				before := snapshotElig()
				possible := anyEligible(j.ref, j.mev)
				res, err := c.Block(c.MustSign(u, &schedtypes.MsgExecuteJob{Metadata: chain.MD(u), JobID: id}))
				if err != nil {
					t.Fatalf("block: %v", err)
				}
				ok := res.TxResults[0].Code == 0
				cnt := judgeNew(t, before)
				log = append(log, fmt.Sprintf("exec(%s,%s)=%v new=%d", u.Name, id, ok, cnt))
				if !possible && ok {
					t.Fatalf("job %s executed although no validator is eligible for %s (MEV %v)", id, j.ref, j.mev)
				}
				if !ok && cnt > 0 {
					t.Fatalf("failed job request enqueued %d messages", cnt)
				}
				checkRelay(t)
			},
			"estimate": func(t *rapid.T) {
				ch := rapid.SampledFrom(chains).Draw(t, "chain")
				var need []uint64
				for _, m := range queueMsgs(ch.RefID) {
					if m.GetRequireGasEstimation() && m.GetGasEstimate() == 0 {
						need = append(need, m.GetId())
					}
				}
				if len(need) == 0 {
					t.Skip("nothing to estimate")
				}
				id := rapid.SampledFrom(need).Draw(t, "msg")
				ids := []uint64{id}
				if rapid.Bool().Draw(t, "allPending") {
					ids = need
				}
				k := rapid.IntRange(1, n).Draw(t, "howMany")
				var txs [][]byte
				for _, v := range c.Vals[:k] {
					var es []*consensustypes.MsgAddMessageGasEstimates_GasEstimate
					for _, mid := range ids {
						gas := rapid.OneOf(rapid.Uint64Range(21000, 500000), rapid.Uint64Range(1, 1<<40)).Draw(t, "gas")
						es = append(es, &consensustypes.MsgAddMessageGasEstimates_GasEstimate{MsgId: mid, QueueTypeName: chain.TurnstoneQueue(ch.RefID), Value: gas, EstimatedByAddress: chain.EthAddr(v.EthKeys[ch.RefID]).Hex()})
					}
					txs = append(txs, c.MustSign(v.Actor, &consensustypes.MsgAddMessageGasEstimates{Metadata: chain.MD(v.Actor), Estimates: es}))
				}
				before := snapshotElig()
				if _, err := c.Block(txs...); err != nil {
					t.Fatalf("block: %v", err)
				}
				judgeNew(t, before)
				log = append(log, fmt.Sprintf("estimate(%s,msg %d,%d vals)", ch.RefID, id, k))
				checkRelay(t)
				checkFees(t)
			},
			// all validators estimate only the youngest message still waiting for an estimate, so that it is elected while
			// older ones (possibly of the same sender) still wait
			"estimateYoungestOnly": func(t *rapid.T) {
				ch := rapid.SampledFrom(chains).Draw(t, "chain")
				var need []uint64
				for _, m := range queueMsgs(ch.RefID) {
					if m.GetRequireGasEstimation() && m.GetGasEstimate() == 0 {
						need = append(need, m.GetId())
					}
				}
				if len(need) < 2 {
					t.Skip("fewer than two messages wait for an estimate")
				}
				id := need[len(need)-1]
				gas := rapid.Uint64Range(21000, 500000).Draw(t, "gas")
				var txs [][]byte
				for _, v := range c.Vals {
					txs = append(txs, c.MustSign(v.Actor, &consensustypes.MsgAddMessageGasEstimates{Metadata: chain.MD(v.Actor), Estimates: []*consensustypes.MsgAddMessageGasEstimates_GasEstimate{
						{MsgId: id, QueueTypeName: chain.TurnstoneQueue(ch.RefID), Value: gas, EstimatedByAddress: chain.EthAddr(v.EthKeys[ch.RefID]).Hex()}}}))
				}
				before := snapshotElig()
				if _, err := c.Block(txs...); err != nil {
					t.Fatalf("block: %v", err)
				}
				judgeNew(t, before)
				log = append(log, fmt.Sprintf("estimateYoungestOnly(%s,msg %d)", ch.RefID, id))
				checkRelay(t)
				checkFees(t)
			},
			"report": func(t *rapid.T) {
				ch := rapid.SampledFrom(chains).Draw(t, "chain")
				ms := queueMsgs(ch.RefID)
				if len(ms) == 0 {
					t.Skip("empty queue")
				}
				m := ms[rapid.IntRange(0, len(ms)-1).Draw(t, "msg")]
				em := evm(m)
				var who *chain.Validator
				for _, v := range c.Vals {
					if v.Val().String() == em.Assignee {
						who = v
					}
				}
				if who == nil {
					t.Skip("no assignee")
				}
				var msg sdk.Msg = &consensustypes.MsgSetPublicAccessData{Metadata: chain.MD(who.Actor), MessageID: m.GetId(), QueueTypeName: chain.TurnstoneQueue(ch.RefID), Data: []byte{1, 2}, ValsetID: 1}
				if rapid.Bool().Draw(t, "error") {
					msg = &consensustypes.MsgSetErrorData{Metadata: chain.MD(who.Actor), MessageID: m.GetId(), QueueTypeName: chain.TurnstoneQueue(ch.RefID), Data: []byte("x")}
				}
				before := snapshotElig()
				if _, err := c.Block(c.MustSign(who.Actor, msg)); err != nil {
					t.Fatalf("block: %v", err)
				}
				judgeNew(t, before)
				log = append(log, fmt.Sprintf("report(%s,msg %d)", ch.RefID, m.GetId()))
				checkRelay(t)
			},
			"publishValset": func(t *rapid.T) {
				s, err := c.App.ValsetKeeper.GetCurrentSnapshot(c.ReadCtx())
				if err != nil || s == nil {
					t.Skip("no snapshot")
				}
				before := snapshotElig()
				if err := c.App.EvmKeeper.PublishSnapshotToAllChains(c.Ctx(), s, true); err != nil {
					t.Fatalf("publish: %v", err)
				}
				if _, err := c.Block(); err != nil {
					t.Fatalf("block: %v", err)
				}
				cnt := judgeNew(t, before)
				log = append(log, fmt.Sprintf("publishValset new=%d", cnt))
				checkRelay(t)
			},
			"zeroFee": func(t *rapid.T) {
				// a validator withdraws its relayer fee for a chain (multiplicator 0): fee computation for messages already
				// assigned to it fails from now on
				i := rapid.IntRange(0, n-1).Draw(t, "val")
				ch := rapid.SampledFrom(chains).Draw(t, "chain")
				v := c.Vals[i]
				before := snapshotElig()
				res, err := c.Block(c.MustSign(v.Actor, &treasurytypes.MsgUpsertRelayerFee{Metadata: chain.MD(v.Actor), FeeSetting: &treasurytypes.RelayerFeeSetting{ValAddress: v.Val().String(),
					Fees: []treasurytypes.RelayerFeeSetting_FeeSetting{{ChainReferenceId: ch.RefID, Multiplicator: sdkmath.LegacyZeroDec()}}}}))
				if err != nil {
					t.Fatalf("block: %v", err)
				}
				if res.TxResults[0].Code == 0 {
					vals[i].fee[ch.RefID] = "0"
				}
				judgeNew(t, before)
				log = append(log, fmt.Sprintf("zeroFee(v%d,%s)=%v", i, ch.RefID, res.TxResults[0].Code == 0))
				checkRelay(t)
				checkFees(t)
			},
			"dropMetrics": func(t *rapid.T) {
				i := rapid.IntRange(0, n-1).Draw(t, "val")
				// fixture: a validator without a metrics record (as for one that was skipped by the snapshot listener)
				st := c.Ctx().KVStore(c.App.GetKey("metrix"))
				it := st.Iterator(nil, nil)
				var del [][]byte
				for ; it.Valid(); it.Next() {
					if bytes.Contains(it.Key(), c.Vals[i].Val()) && bytes.Contains(it.Key(), []byte("metrics")) {
						del = append(del, append([]byte(nil), it.Key()...))
					}
				}
				it.Close()
				for _, k := range del {
					st.Delete(k)
				}
				if len(del) > 0 {
					oneReason = true
				}
				log = append(log, fmt.Sprintf("dropMetrics(v%d,%d keys)", i, len(del)))
			},
			"advance": func(t *rapid.T) {
				before := snapshotElig()
				if err := c.Advance(rapid.IntRange(1, 3).Draw(t, "blocks")); err != nil {
					t.Fatalf("advance: %v", err)
				}
				judgeNew(t, before)
				checkRelay(t)
				checkFees(t)
			},
		})
		labels := []string{fmt.Sprintf("feesChecked=%d", min(feeChecked, 5))}
		if oneReason {
			labels = append(labels, "validatorIneligibleForOneReason")
		}
		if twoFromSender {
			labels = append(labels, "twoMessagesOfOneSender")
		}
		evid.Case(t.Name(), strings.Join(log, " "), oneReason || twoFromSender, labels, func() any { return log })
	})
}
