package props

// C10 — validator snapshots are faithful, immutable (except the list of chains where they are live), ids increase;
// the validator set sent to a chain is the snapshot restricted to validators with an account there, powers =
// floor(share * 2^32 / total), and is only sent when they sum to >= 2/3 of 2^32.

import (
	"fmt"
	"math/big"
	"sort"
	"strings"
	"testing"

	sdkmath "cosmossdk.io/math"
	sdk "github.com/cosmos/cosmos-sdk/types"
	stakingtypes "github.com/cosmos/cosmos-sdk/x/staking/types"
	"pgregory.net/rapid"

	evmtypes "github.com/palomachain/paloma/v2/x/evm/types"
	treasurytypes "github.com/palomachain/paloma/v2/x/treasury/types"
	vtypes "github.com/palomachain/paloma/v2/x/valset/types"

	"verif/harness/chain"
	"verif/harness/evid"
)

var c10Two32 = new(big.Int).Lsh(big.NewInt(1), 32)

const c10Threshold = 2_863_311_530

// c10Stakes draws validator stakes (ugrain, each >= 1e6, total < 2^62), including the constructed "float trap":
// share = (N*T - 1) / 2^32 with N = T^-1 mod 2^32, for which share*2^32/T = N - 1/T.
func c10Stakes(t *rapid.T, n int, label string) []int64 {
	kind := rapid.SampledFrom([]string{"equal", "random", "huge", "floatTrap", "floatTrap", "oneSmall"}).Draw(t, label+".kind")
	out := make([]int64, n)
	switch kind {
	case "equal":
		v := rapid.Int64Range(1_000_000, 1<<40).Draw(t, label+".v")
		for i := range out {
			out[i] = v
		}
	case "random":
		for i := range out {
			out[i] = rapid.Int64Range(1_000_000, 1<<45).Draw(t, label+".s")
		}
	case "huge":
		lim := (int64(1) << 61) / int64(n)
		for i := range out {
			out[i] = rapid.Int64Range(lim/2, lim).Draw(t, label+".s")
		}
	case "oneSmall":
		for i := range out {
			out[i] = rapid.Int64Range(1<<30, 1<<40).Draw(t, label+".s")
		}
		out[0] = 1_000_000
	case "floatTrap":
		for tries := 0; tries < 50; tries++ {
			T := rapid.Int64Range(1<<40, 1<<58).Draw(t, label+".T") | 1
			bt := big.NewInt(T)
			N := new(big.Int).ModInverse(bt, c10Two32)
			if N == nil {
				continue
			}
			s := new(big.Int).Mul(N, bt)
			s.Sub(s, big.NewInt(1)).Rsh(s, 32)
			rest := T - s.Int64()
			if !s.IsInt64() || s.Int64() < 1_000_000 || rest < int64(n-1)*1_000_000 {
				continue
			}
			out[0] = s.Int64()
			// split the rest among the others
			rem := rest
			for i := 1; i < n; i++ {
				left := int64(n - i - 1)
				if left == 0 {
					out[i] = rem
					break
				}
				v := rapid.Int64Range(1_000_000, rem-left*1_000_000).Draw(t, label+".split")
				out[i] = v
				rem -= v
			}
			return out
		}
		for i := range out {
			out[i] = 5_000_000
		}
	}
	return out
}

type c10Snap struct {
	id     uint64
	total  *big.Int
	shares map[string]*big.Int          // valoper -> share
	accts  map[string]map[string]string // valoper -> chain -> address
	order  []string
	chains []string
	raw    string
}

func c10Record(s *vtypes.Snapshot) *c10Snap {
	r := &c10Snap{id: s.Id, total: s.TotalShares.BigInt(), shares: map[string]*big.Int{}, accts: map[string]map[string]string{}, chains: append([]string(nil), s.Chains...)}
	for _, v := range s.Validators {
		a := v.Address.String()
		r.order = append(r.order, a)
		r.shares[a] = v.ShareCount.BigInt()
		r.accts[a] = map[string]string{}
		for _, e := range v.ExternalChainInfos {
			if strings.ToLower(e.ChainType) == "evm" {
				r.accts[a][e.ChainReferenceID] = e.Address
			}
		}
	}
	c := *s
	c.Chains = nil
	r.raw = c.String()
	return r
}

// c10CheckValset judges one UpdateValset message against the snapshot it was derived from.
func c10CheckValset(t *rapid.T, vs *evmtypes.Valset, snap *c10Snap, chainRef string, what string) (sum uint64, nearGate bool) {
	type vp struct {
		addr  string
		power uint64
		share *big.Int
	}
	var want []vp
	exactSum := new(big.Int)
	for _, a := range snap.order {
		addr, ok := snap.accts[a][chainRef]
		if !ok {
			continue
		}
		p := new(big.Int).Mul(snap.shares[a], c10Two32)
		p.Quo(p, snap.total)
		want = append(want, vp{addr, p.Uint64(), snap.shares[a]})
		exactSum.Add(exactSum, p)
	}
	if len(vs.Validators) != len(want) || len(vs.Powers) != len(want) {
		t.Fatalf("%s: valset for %s has %d validators / %d powers, snapshot %d has %d validators with an account there", what, chainRef, len(vs.Validators), len(vs.Powers), snap.id, len(want))
	}
	wantByAddr := map[string]vp{}
	for _, w := range want {
		wantByAddr[strings.ToLower(w.addr)] = w
	}
	var prevShare *big.Int
	for i, a := range vs.Validators {
		w, ok := wantByAddr[strings.ToLower(a)]
		if !ok {
			t.Fatalf("%s: valset member %s is not a snapshot validator with an account on %s", what, a, chainRef)
		}
		if vs.Powers[i] != w.power {
			t.Fatalf("%s: power of %s is %d, stake fraction %s/%s scaled to 2^32 and rounded down is %d", what, a, vs.Powers[i], w.share, snap.total, w.power)
		}
		if prevShare != nil && w.share.Cmp(prevShare) > 0 {
			t.Fatalf("%s: valset not ordered by share", what)
		}
		prevShare = w.share
		sum += vs.Powers[i]
		delete(wantByAddr, strings.ToLower(a))
	}
	if sum > 1<<32 {
		t.Fatalf("%s: powers sum to %d > 2^32", what, sum)
	}
	if sum < c10Threshold {
		t.Fatalf("%s: valset sent to %s although its powers sum to %d < 2/3 of 2^32 (%d)", what, chainRef, sum, c10Threshold)
	}
	d := int64(sum) - c10Threshold
	return sum, d < 1<<20
}

func TestC10_SnapshotsAndProjection(t *testing.T) {
	evid.Check(t, 120, 600, func(t *rapid.T) {
		salt := fmt.Sprintf("c10-%d", rapid.IntRange(0, 1<<30).Draw(t, "salt"))
		n := rapid.IntRange(3, 6).Draw(t, "nVals")
		stakes := c10Stakes(t, n, "stakes")
		chains := []chain.EvmChain{{RefID: "eth-main", ChainID: 1}, {RefID: "bnb-main", ChainID: 56}}
		c, err := chain.New(chain.Options{Salt: salt, Stakes: stakes, Users: []string{"alice"}, UserBalance: 1 << 62, EvmChains: chains})
		if err != nil {
			t.Fatalf("boot: %v", err)
		}
		defer c.Close()
		if _, err := c.Block(); err != nil {
			t.Fatalf("block: %v", err)
		}
		alice := c.Users["alice"]
		// which validator has an account where
		has := make([]map[string]bool, n)
		register := func(v *chain.Validator, refs []string) []byte {
			var infos []*vtypes.ExternalChainInfo
			var fees []treasurytypes.RelayerFeeSetting_FeeSetting
			for _, r := range refs {
				ea := chain.EthAddr(v.EthKeys[r])
				infos = append(infos, &vtypes.ExternalChainInfo{ChainType: "evm", ChainReferenceID: r, Address: ea.Hex(), Pubkey: ea.Bytes()})
				fees = append(fees, treasurytypes.RelayerFeeSetting_FeeSetting{ChainReferenceId: r, Multiplicator: sdkmath.LegacyMustNewDecFromStr("1.1")})
			}
			msgs := []sdk.Msg{&vtypes.MsgKeepAlive{Metadata: chain.MD(v.Actor), PigeonVersion: "v2.0.0"}, &vtypes.MsgAddExternalChainInfoForValidator{Metadata: chain.MD(v.Actor), ChainInfos: infos}}
			if len(fees) > 0 {
				msgs = append(msgs, &treasurytypes.MsgUpsertRelayerFee{Metadata: chain.MD(v.Actor), FeeSetting: &treasurytypes.RelayerFeeSetting{ValAddress: v.Val().String(), Fees: fees}})
			}
			return c.MustSign(v.Actor, msgs...)
		}
		var txs [][]byte
		for i, v := range c.Vals {
			has[i] = map[string]bool{}
			var refs []string
			for _, ch := range chains {
				if i < 2 || rapid.IntRange(0, 3).Draw(t, "hasAccount") > 0 {
					refs = append(refs, ch.RefID)
					has[i][ch.RefID] = true
				}
			}
			if len(refs) == 0 {
				refs = []string{"eth-main"}
				has[i]["eth-main"] = true
			}
			txs = append(txs, register(v, refs))
		}
		res, err := c.Block(txs...)
		if err != nil {
			t.Fatalf("block: %v", err)
		}
		for i, r := range res.TxResults {
			if r.Code != 0 {
				t.Fatalf("register %d: %s", i, r.Log)
			}
		}
		recorded := map[uint64]*c10Snap{}
		active := map[string]bool{}
		jailed := map[int]bool{}
		var log []string
		var lastID uint64
		excluded, nearGate, bigTotal := false, false, false
		olderMarked := false
		balanceOnEarlierAccount := false
		lastMsgID := map[string]uint64{}

		observeSnapshots := func(t *rapid.T) {
			ctx := c.ReadCtx()
			cur, err := c.App.ValsetKeeper.GetCurrentSnapshot(ctx)
			if err != nil {
				t.Fatalf("current: %v", err)
			}
			if cur == nil {
				return
			}
			if cur.Id < lastID {
				t.Fatalf("current snapshot id went from %d to %d", lastID, cur.Id)
			}
			for id := uint64(1); id <= cur.Id; id++ {
				s, err := c.App.ValsetKeeper.FindSnapshotByID(ctx, id)
				if err != nil {
					t.Fatalf("snapshot %d missing: %v", id, err)
				}
				r := c10Record(s)
				if old := recorded[id]; old != nil {
					if old.raw != r.raw {
						t.Fatalf("stored snapshot %d changed:\n was %s\n now %s", id, old.raw, r.raw)
					}
					if len(r.chains) < len(old.chains) || strings.Join(r.chains[:len(old.chains)], ",") != strings.Join(old.chains, ",") {
						t.Fatalf("chain list of snapshot %d is not append-only: %v -> %v", id, old.chains, r.chains)
					}
				}
				recorded[id] = r
			}
			if _, err := c.App.ValsetKeeper.FindSnapshotByID(ctx, cur.Id+1); err == nil {
				t.Fatalf("a snapshot with id %d exists but the current one is %d", cur.Id+1, cur.Id)
			}
			lastID = cur.Id
		}
		// the harness's own view of who must be in a snapshot built now
		expectMembers := func() (map[string]*big.Int, *big.Int) {
			ctx := c.ReadCtx()
			m := map[string]*big.Int{}
			tot := new(big.Int)
			for i, v := range c.Vals {
				val, err := c.App.StakingKeeper.GetValidator(ctx, v.Val())
				if err != nil {
					t.Fatalf("validator: %v", err)
				}
				ok := val.Status == stakingtypes.Bonded && !val.Jailed
				for ch := range active {
					if !has[i][ch] {
						ok = false
					}
				}
				if ok {
					m[v.Val().String()] = val.Tokens.BigInt()
					tot.Add(tot, val.Tokens.BigInt())
				} else {
					excluded = true
				}
			}
			return m, tot
		}
		build := func(t *rapid.T, why string) {
			want, wantTotal := expectMembers()
			before := lastID
			s, err := c.App.ValsetKeeper.TriggerSnapshotBuild(c.Ctx())
			if err != nil {
				t.Fatalf("build: %v", err)
			}
			if _, err := c.Block(); err != nil {
				t.Fatalf("block: %v", err)
			}
			observeSnapshots(t)
			if s == nil {
				log = append(log, why+":build(not worthy)")
				return
			}
			if s.Id != before+1 || lastID != s.Id {
				t.Fatalf("new snapshot has id %d, previous was %d, current now %d", s.Id, before, lastID)
			}
			r := recorded[s.Id]
			if len(r.shares) != len(want) {
				t.Fatalf("snapshot %d has %d validators, expected the %d bonded, unjailed validators with an account on every active chain %v", s.Id, len(r.shares), len(want), active)
			}
			for a, sh := range want {
				if r.shares[a] == nil || r.shares[a].Cmp(sh) != 0 {
					t.Fatalf("snapshot %d: share of %s is %v, bonded stake is %s", s.Id, a, r.shares[a], sh)
				}
			}
			if r.total.Cmp(wantTotal) != 0 {
				t.Fatalf("snapshot %d: total %s, sum of shares %s", s.Id, r.total, wantTotal)
			}
			if wantTotal.BitLen() > 53 {
				bigTotal = true
			}
			log = append(log, fmt.Sprintf("%s:build(id=%d,members=%d)", why, s.Id, len(want)))
		}
		newValsets := func(t *rapid.T) map[string]*evmtypes.Valset {
			out := map[string]*evmtypes.Valset{}
			for _, ch := range chains {
				q := chain.TurnstoneQueue(ch.RefID)
				ms, err := c.App.ConsensusKeeper.GetMessagesFromQueue(c.ReadCtx(), q, 0)
				if err != nil {
					continue
				}
				for _, m := range ms {
					if m.GetId() <= lastMsgID[ch.RefID] {
						continue
					}
					lastMsgID[ch.RefID] = m.GetId()
					cm, err := m.ConsensusMsg(c.App.AppCodec())
					if err != nil {
						continue
					}
					if uv, ok := cm.(*evmtypes.Message).Action.(*evmtypes.Message_UpdateValset); ok {
						out[ch.RefID] = uv.UpdateValset.Valset
					}
				}
			}
			return out
		}

		observeSnapshots(t)
		build(t, "initial")
		t.Repeat(map[string]func(*rapid.T){
			"activateChain": func(t *rapid.T) {
				ch := rapid.SampledFrom(chains).Draw(t, "chain")
				if active[ch.RefID] || lastID == 0 {
					t.Skip("already active")
				}
				ctx := c.Ctx()
				sc, err := c.App.EvmKeeper.GetLastCompassContract(ctx)
				if err != nil {
					t.Fatalf("compass: %v", err)
				}
				if err := c.App.ValsetKeeper.SetSnapshotOnChain(ctx, lastID, ch.RefID); err != nil {
					t.Fatalf("on chain: %v", err)
				}
				if err := c.App.EvmKeeper.ActivateChainReferenceID(ctx, ch.RefID, sc, "0x00000000000000000000000000000000000000c1", []byte("compass-1")); err != nil {
					t.Fatalf("activate: %v", err)
				}
				active[ch.RefID] = true
				if _, err := c.Block(); err != nil {
					t.Fatalf("block: %v", err)
				}
				observeSnapshots(t)
				newValsets(t)
				log = append(log, "activate("+ch.RefID+")")
			},
			// a validator-set update for an older snapshot is attested late: that snapshot (and no other) becomes live on
			// the chain (attest_update_valset calls SetSnapshotOnChain with the id carried by the delivered message)
			"lateLiveOnChain": func(t *rapid.T) {
				if lastID == 0 {
					t.Skip("no snapshot")
				}
				id := uint64(rapid.IntRange(1, int(lastID)).Draw(t, "snapshotID"))
				ch := rapid.SampledFrom(chains).Draw(t, "chain")
				if err := c.App.ValsetKeeper.SetSnapshotOnChain(c.Ctx(), id, ch.RefID); err != nil {
					t.Fatalf("on chain: %v", err)
				}
				if _, err := c.Block(); err != nil {
					t.Fatalf("block: %v", err)
				}
				observeSnapshots(t)
				found := false
				for _, x := range recorded[id].chains {
					if x == ch.RefID {
						found = true
					}
				}
				if !found {
					t.Fatalf("snapshot %d was marked live on %s but its chain list is %v", id, ch.RefID, recorded[id].chains)
				}
				if id != lastID {
					olderMarked = true
				}
				log = append(log, fmt.Sprintf("lateLive(%d,%s)", id, ch.RefID))
			},
			"jail": func(t *rapid.T) {
				i := rapid.IntRange(0, n-1).Draw(t, "val")
				if jailed[i] || len(jailed) >= n-2 {
					t.Skip("enough jailed")
				}
				if err := c.App.ValsetKeeper.Jail(c.Ctx(), c.Vals[i].Val(), "verif fixture"); err == nil {
					jailed[i] = true
				}
				log = append(log, fmt.Sprintf("jail(v%d)=%v", i, jailed[i]))
				if jailed[i] && rapid.Bool().Draw(t, "snapshotInTheJailingBlock") {
					// Paloma jails in end blockers that run after staking's: until the next block the validator is jailed
					// but still bonded, and a snapshot built now must already leave it out
					build(t, "jailingBlock")
					return
				}
				if _, err := c.Block(); err != nil {
					t.Fatalf("block: %v", err)
				}
				observeSnapshots(t)
			},
			"delegate": func(t *rapid.T) {
				v := c.Vals[rapid.IntRange(0, n-1).Draw(t, "val")]
				amt := rapid.Int64Range(1, 1<<40).Draw(t, "amt")
				res, err := c.Block(c.MustSign(alice, stakingtypes.NewMsgDelegate(alice.Addr.String(), v.Val().String(), sdk.NewCoin(chain.BondDenom, sdkmath.NewInt(amt)))))
				if err != nil {
					t.Fatalf("block: %v", err)
				}
				observeSnapshots(t)
				log = append(log, fmt.Sprintf("delegate(v%d,%d)=%v", v.Index, amt, res.TxResults[0].Code == 0))
			},
			"changeAccounts": func(t *rapid.T) {
				i := rapid.IntRange(0, n-1).Draw(t, "val")
				var refs []string
				nh := map[string]bool{}
				for _, ch := range chains {
					if rapid.Bool().Draw(t, "keep") {
						refs = append(refs, ch.RefID)
						nh[ch.RefID] = true
					}
				}
				if len(refs) == 0 {
					t.Skip("would remove all")
				}
				res, err := c.Block(register(c.Vals[i], refs))
				if err != nil {
					t.Fatalf("block: %v", err)
				}
				if res.TxResults[0].Code == 0 {
					has[i] = nh
				}
				observeSnapshots(t)
				log = append(log, fmt.Sprintf("accounts(v%d,%v)=%v", i, refs, res.TxResults[0].Code == 0))
			},
			// the balance of one of a validator's remote accounts is attested (what the evm module records when a balance
			// attestation reaches consensus): the validator's registrations are what they were
			"attestBalance": func(t *rapid.T) {
				i := rapid.IntRange(0, n-1).Draw(t, "val")
				var refs []string
				for _, ch := range chains {
					if has[i][ch.RefID] {
						refs = append(refs, ch.RefID)
					}
				}
				if len(refs) == 0 {
					t.Skip("no accounts")
				}
				ref := rapid.SampledFrom(refs).Draw(t, "chain")
				bal := new(big.Int).Lsh(big.NewInt(int64(rapid.IntRange(0, 1<<30).Draw(t, "balance"))), uint(rapid.IntRange(0, 60).Draw(t, "shift")))
				err := c.App.ValsetKeeper.SetValidatorBalance(c.Ctx(), c.Vals[i].Val(), "evm", ref, chain.EthAddr(c.Vals[i].EthKeys[ref]).Hex(), bal)
				// (refused e.g. for a jailed validator: nothing recorded, nothing changed)
				if _, err := c.Block(); err != nil {
					t.Fatalf("block: %v", err)
				}
				if err == nil && len(refs) > 1 && ref != refs[len(refs)-1] {
					balanceOnEarlierAccount = true
				}
				observeSnapshots(t)
				log = append(log, fmt.Sprintf("balance(v%d,%s of %v)=%v", i, ref, refs, err == nil))
			},
			"buildSnapshot": func(t *rapid.T) { build(t, "harness") },
			"publishStored": func(t *rapid.T) {
				if lastID == 0 || len(active) == 0 {
					t.Skip("nothing to publish")
				}
				s, err := c.App.ValsetKeeper.GetCurrentSnapshot(c.ReadCtx())
				if err != nil || s == nil {
					t.Fatalf("current: %v", err)
				}
				if err := c.App.EvmKeeper.PublishSnapshotToAllChains(c.Ctx(), s, true); err != nil {
					t.Fatalf("publish: %v", err)
				}
				if _, err := c.Block(); err != nil {
					t.Fatalf("block: %v", err)
				}
				observeSnapshots(t)
				for ref, vs := range newValsets(t) {
					snap := recorded[vs.ValsetID]
					if snap == nil {
						t.Fatalf("valset refers to unknown snapshot %d", vs.ValsetID)
					}
					sum, ng := c10CheckValset(t, vs, snap, ref, fmt.Sprintf("publish of stored snapshot %d", s.Id))
					nearGate = nearGate || ng
					log = append(log, fmt.Sprintf("publishStored(%s,sum=%d)", ref, sum))
				}
			},
			"publishGenerated": func(t *rapid.T) {
				if len(active) == 0 || lastID == 0 {
					t.Skip("no active chain")
				}
				// a generated snapshot over the real validators: arbitrary shares, members possibly without an account on a chain
				m := rapid.IntRange(1, n).Draw(t, "members")
				sh := c10Stakes(t, m, "genShares")
				gs := &vtypes.Snapshot{Id: 1000 + uint64(rapid.IntRange(1, 1000).Draw(t, "id")), TotalShares: sdkmath.ZeroInt()}
				for i := 0; i < m; i++ {
					v := c.Vals[i]
					var infos []*vtypes.ExternalChainInfo
					for _, ch := range chains {
						if rapid.IntRange(0, 4).Draw(t, "acct") > 0 {
							ea := chain.EthAddr(v.EthKeys[ch.RefID])
							infos = append(infos, &vtypes.ExternalChainInfo{ChainType: "evm", ChainReferenceID: ch.RefID, Address: ea.Hex(), Pubkey: ea.Bytes()})
						}
					}
					gs.Validators = append(gs.Validators, vtypes.Validator{Address: v.Val(), ShareCount: sdkmath.NewInt(sh[i]), State: vtypes.ValidatorState_ACTIVE, ExternalChainInfos: infos})
					gs.TotalShares = gs.TotalShares.Add(sdkmath.NewInt(sh[i]))
				}
				if gs.TotalShares.BigInt().BitLen() > 53 {
					bigTotal = true
				}
				if err := c.App.EvmKeeper.PublishSnapshotToAllChains(c.Ctx(), gs, true); err != nil {
					t.Fatalf("publish: %v", err)
				}
				if _, err := c.Block(); err != nil {
					t.Fatalf("block: %v", err)
				}
				observeSnapshots(t)
				rec := c10Record(gs)
				got := newValsets(t)
				for ref, vs := range got {
					if vs.ValsetID != gs.Id {
						continue
					}
					sum, ng := c10CheckValset(t, vs, rec, ref, fmt.Sprintf("publish of generated snapshot shares=%v", sh))
					nearGate = nearGate || ng
					log = append(log, fmt.Sprintf("publishGenerated(%s,shares=%v,sum=%d)", ref, sh, sum))
				}
				// a set below the gate must not have been sent
				for _, ch := range chains {
					if !active[ch.RefID] {
						continue
					}
					exact := new(big.Int)
					for _, a := range rec.order {
						if _, ok := rec.accts[a][ch.RefID]; ok {
							p := new(big.Int).Mul(rec.shares[a], c10Two32)
							exact.Add(exact, p.Quo(p, rec.total))
						}
					}
					if vs, sent := got[ch.RefID]; sent && vs.ValsetID == gs.Id && exact.Cmp(big.NewInt(c10Threshold)) < 0 {
						t.Fatalf("valset sent to %s although exact powers sum to %s < %d", ch.RefID, exact, c10Threshold)
					}
				}
			},
		})
		keys := make([]string, 0, len(active))
		for k := range active {
			keys = append(keys, k)
		}
		sort.Strings(keys)
		labels := []string{fmt.Sprintf("snapshots=%d", min(int(lastID), 6))}
		allEqual := true
		for _, s := range stakes {
			if s != stakes[0] {
				allEqual = false
			}
		}
		nt := (!allEqual && excluded) || nearGate || bigTotal || olderMarked
		if excluded {
			labels = append(labels, "validatorExcluded")
		}
		if nearGate {
			labels = append(labels, "nearQuorumGate")
		}
		if bigTotal {
			labels = append(labels, "total>2^53")
		}
		if balanceOnEarlierAccount {
			labels = append(labels, "balanceAttestedOnEarlierListedAccount")
		}
		if olderMarked {
			labels = append(labels, "olderSnapshotMarkedLive")
		}
		evid.Case(t.Name(), fmt.Sprintf("stakes=%v active=%v %s", stakes, keys, strings.Join(log, " ")), nt, labels, func() any { return map[string]any{"stakes": stakes, "history": log} })
	})
}
