package props

// C08 (calendar arithmetic): a light node licence is registered in a block whose time lies close to a month boundary,
// for a generated number of vesting months. The same history is executed twice in processes that differ only in their
// local time zone (what Go derives from TZ / /etc/localtime); block results, app hashes and the stored vesting account
// must be identical. Month arithmetic is the one operation where a zone leaks into a stored value: "the same day N
// months later" is evaluated on some calendar, and near a month boundary the local calendar of a node differs from UTC.

import (
	"fmt"
	"testing"
	"time"

	sdkmath "cosmossdk.io/math"
	sdk "github.com/cosmos/cosmos-sdk/types"
	vestingtypes "github.com/cosmos/cosmos-sdk/x/auth/vesting/types"
	"pgregory.net/rapid"

	palomatypes "github.com/palomachain/paloma/v2/x/paloma/types"

	"verif/harness/chain"
	"verif/harness/evid"
)

type c08LightNodeResult struct {
	digests []string
	details [][]string
	regTime time.Time
	start   int64
	end     int64
	ok      bool
}

func c08LightNodeRun(t *rapid.T, salt string, shift int64, months uint32, amt int64, loc *time.Location) c08LightNodeResult {
	old := time.Local
	time.Local = loc
	defer func() { time.Local = old }()
	var out c08LightNodeResult
	c, err := chain.New(chain.Options{Salt: salt, Stakes: []int64{100_000_000}, Users: []string{"rich", "granter"}, UserBalance: 1_000_000_000, EpochShift: shift})
	if err != nil {
		t.Fatalf("boot: %v", err)
	}
	defer c.Close()
	block := func(txs ...[]byte) {
		res, err := c.Block(txs...)
		if err != nil {
			t.Fatalf("block: %v", err)
		}
		d, parts := c08Digest(res)
		out.digests = append(out.digests, d)
		out.details = append(out.details, parts)
		for i, r := range res.TxResults {
			if r.Code != 0 {
				t.Fatalf("tx %d of block %d refused: %s", i, c.H-1, r.Log)
			}
		}
	}
	block()
	rich, granter := c.Users["rich"], c.Users["granter"]
	client := chain.MkActor(salt + "/client")
	ctx := c.Ctx()
	if err := c.App.PalomaKeeper.SetLightNodeClientFunders(ctx, []sdk.AccAddress{rich.Addr}); err != nil {
		t.Fatalf("funders: %v", err)
	}
	if err := c.App.PalomaKeeper.SetLightNodeClientFeegranter(ctx, granter.Addr); err != nil {
		t.Fatalf("feegranter: %v", err)
	}
	block(c.MustSign(rich, &palomatypes.MsgAddLightNodeClientLicense{Metadata: chain.MD(rich), ClientAddress: client.Addr.String(), Amount: sdk.NewCoin(chain.BondDenom, sdkmath.NewInt(amt)), VestingMonths: months}))
	out.regTime = c.BlockTimeOf(c.H)
	block(c.MustSign(client, &palomatypes.MsgRegisterLightNodeClient{Metadata: chain.MD(client)}))
	block()
	if va, ok := c.App.AccountKeeper.GetAccount(c.ReadCtx(), client.Addr).(*vestingtypes.ContinuousVestingAccount); ok {
		out.start, out.end, out.ok = va.StartTime, va.EndTime, true
	}
	return out
}

func TestC08_LightNodeVestingIndependentOfProcessZone(t *testing.T) {
	zones := []*time.Location{
		time.FixedZone("LINT", 14*3600), time.FixedZone("SST", -11*3600), time.FixedZone("JST", 9*3600),
		time.FixedZone("EST", -5*3600), time.FixedZone("NPT", 5*3600+45*60), time.FixedZone("BIT", -12*3600),
	}
	evid.Check(t, 25, 300, func(t *rapid.T) {
		salt := fmt.Sprintf("c08ln-%d", rapid.IntRange(0, 1<<30).Draw(t, "salt"))
		year := rapid.IntRange(2024, 2033).Draw(t, "year")
		month := time.Month(rapid.IntRange(1, 12).Draw(t, "month"))
		zone := rapid.SampledFrom(zones).Draw(t, "zone")
		_, off := time.Date(2025, 1, 1, 0, 0, 0, 0, zone).Zone()
		where := rapid.SampledFrom([]string{"boundary", "boundary", "boundary", "boundary", "anyTime"}).Draw(t, "where")
		var target time.Time
		switch {
		case where == "boundary" && off > 0:
			// late on the last day of the month (day 0 of the next one): east of Greenwich it is already the next month
			back := rapid.IntRange(60, off-60).Draw(t, "secondsBeforeMonthEnd")
			target = time.Date(year, month+1, 1, 0, 0, 0, 0, time.UTC).Add(-time.Duration(back) * time.Second)
		case where == "boundary":
			// early on the first day of the month: west of Greenwich it is still the previous month
			in := rapid.IntRange(60, -off-60).Draw(t, "secondsIntoMonth")
			target = time.Date(year, month, 1, 0, 0, 0, 0, time.UTC).Add(time.Duration(in) * time.Second)
		default:
			target = time.Date(year, month, rapid.IntRange(1, 28).Draw(t, "day"), rapid.IntRange(0, 23).Draw(t, "hour"), 0, 7, 0, time.UTC)
		}
		months := uint32(rapid.SampledFrom([]int{1, 1, 2, 3, 6, 7, 11, 12, 24, 36}).Draw(t, "vestingMonths"))
		amt := rapid.Int64Range(1_000_000, 50_000_000).Draw(t, "amount")
		// the registration is the third block of the chain
		shift := target.Unix() - chain.BlockTime(3).Unix()
		a := c08LightNodeRun(t, salt, shift, months, amt, time.UTC)
		b := c08LightNodeRun(t, salt, shift, months, amt, zone)
		if !a.ok || !b.ok {
			t.Fatalf("registration did not leave a continuous vesting account (UTC run %v, %s run %v)", a.ok, zone, b.ok)
		}
		if a.start != b.start || a.end != b.end {
			t.Fatalf("licence of %d months registered at %s: the node in UTC stores vesting %s .. %s, the node in zone %s stores %s .. %s",
				months, a.regTime.Format(time.RFC3339), time.Unix(a.start, 0).UTC().Format(time.RFC3339), time.Unix(a.end, 0).UTC().Format(time.RFC3339), zone,
				time.Unix(b.start, 0).UTC().Format(time.RFC3339), time.Unix(b.end, 0).UTC().Format(time.RFC3339))
		}
		if len(a.digests) != len(b.digests) {
			t.Fatalf("executions produced %d and %d blocks", len(a.digests), len(b.digests))
		}
		for i := range a.digests {
			if a.digests[i] != b.digests[i] {
				t.Fatalf("block %d differs between the node in UTC and the node in zone %s:\n%v\n%v", i, zone, a.details[i], b.details[i])
			}
		}
		otherMonth := a.regTime.In(zone).Month() != a.regTime.Month()
		labels := []string{"zone:" + zone.String(), "at:" + where}
		if otherMonth {
			labels = append(labels, "localCalendarInAnotherMonth")
		}
		evid.Case(t.Name(), fmt.Sprintf("%s +%dm zone=%s", a.regTime.Format(time.RFC3339), months, zone), otherMonth, labels, func() any {
			return map[string]any{"registeredAt": a.regTime.Format(time.RFC3339), "months": months, "zone": zone.String(), "vestingEnd": time.Unix(a.end, 0).UTC().Format(time.RFC3339)}
		})
	})
}
