package props

// C12 — unresponsive validators are jailed at the next liveness sweep (unless in grace or protected), responsive
// ones never; stale relayer versions refused; minimum version never decreases; sentences escalate.

import (
	"bytes"
	"encoding/json"
	"fmt"
	"math/big"
	"sort"
	"strings"
	"testing"
	"time"

	sdk "github.com/cosmos/cosmos-sdk/types"
	slashingtypes "github.com/cosmos/cosmos-sdk/x/slashing/types"
	"pgregory.net/rapid"

	"github.com/palomachain/paloma/v2/x/valset"
	vtypes "github.com/palomachain/paloma/v2/x/valset/types"

	"verif/harness/chain"
	"verif/harness/evid"
)

const (
	c12TTL   = 2000
	c12Grace = 30
)

var c12Schedule = []time.Duration{time.Minute, 5 * time.Minute, 15 * time.Minute, time.Hour, 24 * time.Hour}

// c12Seed finds an actor seed whose 20-byte address does / does not contain 0x2c (',').
func c12Seed(base string, comma bool) string {
	for k := 0; ; k++ {
		s := fmt.Sprintf("%s/%d", base, k)
		if bytes.Contains(chain.MkActor(s).Addr, []byte{0x2c}) == comma {
			return s
		}
	}
}

type c12Val struct {
	v          *chain.Validator
	comma      bool
	aliveUntil int64 // 0 = no keep-alive on record
	graceStart int64
	jailed     bool
	lastDur    time.Duration
	lastJailAt time.Time
	jailCount  int
}

func TestC12_LivenessJailing(t *testing.T) {
	evid.Check(t, 40, 150, func(t *rapid.T) {
		salt := fmt.Sprintf("c12-%d", rapid.IntRange(0, 1<<30).Draw(t, "salt"))
		n := rapid.IntRange(4, 7).Draw(t, "nVals")
		kind := rapid.SampledFrom([]string{"equal", "oneBig", "random", "quarter"}).Draw(t, "stakeKind")
		// "quarter": validator 0 holds exactly / just below / just above a quarter of the bonded power (the protection
		// rule is "more than 25 %"), in thousandths of the total
		quarter := int64(rapid.SampledFrom([]int{249, 250, 251, 255, 259, 260}).Draw(t, "quarterShare"))
		stakes := make([]int64, n)
		seeds := make([]string, n)
		commas := make([]bool, n)
		for i := range stakes {
			switch kind {
			case "equal":
				stakes[i] = 100
			case "oneBig":
				stakes[i] = 50
				if i == 0 {
					stakes[i] = int64(rapid.IntRange(60, 200).Draw(t, "big"))
				}
			case "quarter":
				rest := 1000 - quarter
				stakes[i] = rest / int64(n-1)
				if i == 0 {
					stakes[i] = quarter
				} else if i == n-1 {
					stakes[i] += rest % int64(n-1)
				}
			default:
				stakes[i] = int64(rapid.IntRange(10, 300).Draw(t, "stake"))
			}
			stakes[i] *= 1_000_000
			commas[i] = rapid.IntRange(0, 2).Draw(t, "commaAddr") == 0
			seeds[i] = c12Seed(fmt.Sprintf("%s/v%d", salt, i), commas[i])
		}
		start := int64(rapid.SampledFrom([]int{41, 52, 3001}).Draw(t, "startHeight"))
		c, err := chain.New(chain.Options{Salt: salt, Stakes: stakes, ValSeeds: seeds, InitialHeight: start, Users: []string{"u"}, EvmChains: []chain.EvmChain{{RefID: "eth-main", ChainID: 1}}})
		if err != nil {
			t.Fatalf("boot: %v", err)
		}
		defer c.Close()
		firstBlock := c.H
		if err := c.Ready(); err != nil { // block firstBlock (all validators newly unjailed), firstBlock+1 registrations + keep-alives, +2
			t.Fatalf("ready: %v", err)
		}
		vals := make([]*c12Val, n)
		for i, v := range c.Vals {
			vals[i] = &c12Val{v: v, comma: commas[i], aliveUntil: firstBlock + 1 + c12TTL, graceStart: firstBlock}
		}
		minVersion := "v1.11.3"
		var log []string
		expiredWhileOtherAlive, unjails, jailings := false, 0, 0

		stakingJailed := func(v *chain.Validator) bool {
			val, err := c.App.StakingKeeper.GetValidator(c.ReadCtx(), v.Val())
			if err != nil {
				t.Fatalf("validator: %v", err)
			}
			return val.Jailed
		}
		power := func(x *c12Val) int64 {
			val, _ := c.App.StakingKeeper.GetValidator(c.ReadCtx(), x.v.Val())
			return val.Tokens.Quo(sdk.DefaultPowerReduction).Int64()
		}
		// one block; the oracle runs on the height just finalized
		step := func(t *rapid.T, txs ...[]byte) []bool {
			h := c.H
			// expectations before the block (staking state as the end-blocker will see it, except for tx effects applied below)
			res, err := c.Block(txs...)
			if err != nil {
				t.Fatalf("block %d: %v", h, err)
			}
			oks := make([]bool, len(txs))
			for i := range txs {
				oks[i] = res.TxResults[i].Code == 0
			}
			return oks
		}
		// sweep oracle for the block at height h that has just been executed; pre = model state at the end-blocker
		judge := func(t *rapid.T, h int64) {
			sweep := h > 50 && h%10 == 0
			// who is unjailed / expired at the sweep
			var active []*c12Val
			for _, x := range vals {
				if !x.jailed {
					active = append(active, x)
				}
			}
			totalAll := int64(0)
			for _, x := range active {
				totalAll += power(x)
			}
			var expired []*c12Val
			if sweep {
				for _, x := range active {
					alive := x.aliveUntil != 0 && h < x.aliveUntil
					inGrace := h-x.graceStart <= c12Grace
					if !alive && !inGrace {
						expired = append(expired, x)
					}
				}
			}
			expPower := int64(0)
			for _, x := range expired {
				expPower += power(x)
			}
			for _, x := range vals {
				now := stakingJailed(x.v)
				if x.jailed {
					if !now {
						t.Fatalf("h=%d: validator v%d left jail without an unjail transaction", h, x.v.Index)
					}
					continue
				}
				isExpired := false
				for _, e := range expired {
					if e == x {
						isExpired = true
					}
				}
				if !isExpired {
					if now {
						why := "its keep-alive is valid until " + fmt.Sprint(x.aliveUntil)
						if x.aliveUntil == 0 || h >= x.aliveUntil {
							why = fmt.Sprintf("it is within the grace period (unjailed at %d) or no sweep runs at this height", x.graceStart)
						}
						t.Fatalf("h=%d: validator v%d was jailed although %s\nhistory: %v", h, x.v.Index, why, log)
					}
					continue
				}
				// expired and out of grace at a sweep: must be jailed unless protected
				p := power(x)
				// share range over all orders in which the other expired validators may have been jailed first
				shareMin := new(big.Rat).SetFrac64(p, totalAll)
				rest := totalAll - (expPower - p)
				shareMax := new(big.Rat).SetFrac64(p, rest)
				quarter := big.NewRat(1, 4)
				lastActive := len(active)-(len(expired)-1) <= 1
				definitelyProtected := shareMin.Cmp(quarter) > 0 || len(active) == 1
				possiblyProtected := shareMax.Cmp(quarter) > 0 || lastActive
				switch {
				case now:
					if definitelyProtected {
						t.Fatalf("h=%d: validator v%d holds %s of bonded power (>25%%) or is the last active one, but was jailed", h, x.v.Index, shareMin.FloatString(3))
					}
					// sentence
					x.jailed = true
					x.jailCount++
					jailings++
					si, err := c.App.SlashingKeeper.GetValidatorSigningInfo(c.ReadCtx(), sdk.ConsAddress(x.v.Cons.PubKey().Address()))
					if err != nil {
						t.Fatalf("signing info: %v", err)
					}
					bt := chain.BlockTime(h)
					sentence := si.JailedUntil.Sub(bt)
					okSentence := false
					for _, s := range c12Schedule {
						if s == sentence {
							okSentence = true
						}
					}
					if !okSentence {
						t.Fatalf("h=%d: v%d jailed for %s, not on the schedule", h, x.v.Index, sentence)
					}
					if x.jailCount > 1 {
						thr := 30 * time.Minute
						if d := x.lastDur + x.lastDur/20; d > thr {
							thr = d
						}
						if bt.Sub(x.lastJailAt) < thr {
							want := c12Schedule[len(c12Schedule)-1]
							for _, s := range c12Schedule {
								if x.lastDur < s {
									want = s
									break
								}
							}
							if sentence != want {
								t.Fatalf("h=%d: v%d re-jailed %s after a %s sentence: got %s, schedule says %s", h, x.v.Index, bt.Sub(x.lastJailAt), x.lastDur, sentence, want)
							}
						}
					}
					x.lastDur, x.lastJailAt = sentence, bt
					log = append(log, fmt.Sprintf("h%d:jailed(v%d,%s)", h, x.v.Index, sentence))
				case !possiblyProtected:
					t.Fatalf("h=%d: validator v%d (address contains 0x2c: %v) has no valid keep-alive (aliveUntil=%d), is out of its grace period (unjailed at %d), holds %s..%s of bonded power, and was NOT jailed by the liveness sweep\nhistory: %v",
						h, x.v.Index, x.comma, x.aliveUntil, x.graceStart, shareMin.FloatString(3), shareMax.FloatString(3), log)
				default:
					log = append(log, fmt.Sprintf("h%d:protected(v%d)", h, x.v.Index))
				}
			}
			if sweep && len(expired) > 0 && len(expired) < len(active) {
				expiredWhileOtherAlive = true
			}
		}
		run := func(t *rapid.T, txs ...[]byte) []bool {
			h := c.H
			oks := step(t, txs...)
			judge(t, h)
			return oks
		}

		streaks, streakDone := 0, false
		unjailOne := func(t *rapid.T, x *c12Val) bool {
			// wait until the sentence is over
			for chain.BlockTime(c.H).Before(x.lastJailAt.Add(x.lastDur)) || !chain.BlockTime(c.H).After(x.lastJailAt.Add(x.lastDur)) {
				run(t)
			}
			h := c.H
			oks := step(t, c.MustSign(x.v.Actor, slashingtypes.NewMsgUnjail(x.v.Val().String())))
			if oks[0] {
				x.jailed = false
				x.graceStart = h
				unjails++
			}
			judge(t, h)
			log = append(log, fmt.Sprintf("h%d:unjail(v%d)=%v", h, x.v.Index, oks[0]))
			return oks[0]
		}
		lastAccepted := map[int]string{}
		renewalBelowMinimum := false
		t.Repeat(map[string]func(*rapid.T){
			"keepAlive": func(t *rapid.T) {
				x := vals[rapid.IntRange(0, n-1).Draw(t, "val")]
				ver := rapid.SampledFrom([]string{"v2.0.0", "v1.11.3", "v1.11.2", "v1.0.0", "garbage", "v3.1.4", "2.0.0"}).Draw(t, "version")
				if last := lastAccepted[x.v.Index]; last != "" && rapid.IntRange(0, 2).Draw(t, "sameVersionAsLastTime") == 0 {
					// a relayer that is not upgraded keeps announcing the version it was last accepted with, whatever the
					// minimum has become since
					ver = last
					if semverLess(ver, minVersion) {
						renewalBelowMinimum = true
					}
				}
				h := c.H
				wasJailed := x.jailed
				oks := step(t, c.MustSign(x.v.Actor, &vtypes.MsgKeepAlive{Metadata: chain.MD(x.v.Actor), PigeonVersion: ver}))
				if oks[0] {
					if semverLess(ver, minVersion) {
						t.Fatalf("keep-alive with relayer version %s accepted, minimum is %s", ver, minVersion)
					}
					x.aliveUntil = h + c12TTL
					lastAccepted[x.v.Index] = ver
				}
				_ = wasJailed
				judge(t, h)
				log = append(log, fmt.Sprintf("h%d:keepAlive(v%d,%s)=%v", h, x.v.Index, ver, oks[0]))
			},
			"ageKeepAlive": func(t *rapid.T) {
				// fixture: rewrite a keep-alive as if it had been sent earlier (same bytes KeepValidatorAlive writes)
				x := vals[rapid.IntRange(0, n-1).Draw(t, "val")]
				if kind == "quarter" && rapid.Bool().Draw(t, "theQuarterHolder") {
					x = vals[0]
				}
				if x.aliveUntil == 0 {
					t.Skip("no record")
				}
				remaining := int64(rapid.SampledFrom([]int{0, 1, 5, 9, 10, 11, 25, 60}).Draw(t, "remaining"))
				au := c.H + remaining
				if au >= x.aliveUntil {
					t.Skip("would extend")
				}
				data := vtypes.KeepAliveData{ValAddr: x.v.Val(), ContactedAt: chain.BlockTime(au - c12TTL), AliveUntilBlockHeight: au, PigeonVersion: "v2.0.0"}
				bz, _ := json.Marshal(data)
				st := c.Ctx().KVStore(c.App.GetKey("valset"))
				st.Set(append([]byte("keep-alive/"), x.v.Val()...), bz)
				x.aliveUntil = au
				log = append(log, fmt.Sprintf("h%d:age(v%d,aliveUntil=%d)", c.H, x.v.Index, au))
			},
			// fixture: the keep-alives of the largest validator AND of one or two others run out at the same height, so that
			// one sweep has to deal with a validator it may not jail next to validators it must jail
			"ageSeveral": func(t *rapid.T) {
				big := vals[0]
				for _, x := range vals {
					if x.v.Stake.GT(big.v.Stake) {
						big = x
					}
				}
				remaining := int64(rapid.SampledFrom([]int{0, 1, 5}).Draw(t, "remaining"))
				au := c.H + remaining
				k := rapid.IntRange(1, 2).Draw(t, "others")
				targets := []*c12Val{big}
				for _, x := range vals {
					if x != big && len(targets) <= k && rapid.Bool().Draw(t, "also") {
						targets = append(targets, x)
					}
				}
				st := c.Ctx().KVStore(c.App.GetKey("valset"))
				for _, x := range targets {
					if x.aliveUntil == 0 || au >= x.aliveUntil {
						continue
					}
					data := vtypes.KeepAliveData{ValAddr: x.v.Val(), ContactedAt: chain.BlockTime(au - c12TTL), AliveUntilBlockHeight: au, PigeonVersion: "v2.0.0"}
					bz, _ := json.Marshal(data)
					st.Set(append([]byte("keep-alive/"), x.v.Val()...), bz)
					x.aliveUntil = au
					log = append(log, fmt.Sprintf("h%d:age(v%d,aliveUntil=%d)", c.H, x.v.Index, au))
				}
			},
			"advance": func(t *rapid.T) {
				k := rapid.SampledFrom([]int{1, 1, 3, 10, 12, 35}).Draw(t, "blocks")
				for i := 0; i < k; i++ {
					run(t)
				}
				log = append(log, fmt.Sprintf("advance(%d)->h%d", k, c.H))
			},
			"unjail": func(t *rapid.T) {
				var js []*c12Val
				for _, x := range vals {
					if x.jailed {
						js = append(js, x)
					}
				}
				if len(js) == 0 {
					t.Skip("nobody jailed")
				}
				x := js[rapid.IntRange(0, len(js)-1).Draw(t, "who")]
				if x.lastDur > 20*time.Minute {
					t.Skip("sentence too long to wait for")
				}
				unjailOne(t, x)
			},
			// One validator goes silent and is jailed three times in a row: 20 minutes pass before it first unjails, then it
			// unjails as soon as each sentence is over and is jailed again once its grace period ends - the third jailing
			// falls more than 30 minutes after the first but less than 30 minutes after the second (the reset window counts
			// from the latest jailing)
			"jailStreak": func(t *rapid.T) {
				if streaks >= 1 {
					t.Skip("once")
				}
				var cands []*c12Val
				for _, x := range vals {
					if !x.jailed && x.aliveUntil != 0 {
						cands = append(cands, x)
					}
				}
				if len(cands) == 0 {
					t.Skip("nobody to silence")
				}
				x := cands[rapid.IntRange(0, len(cands)-1).Draw(t, "who")]
				streaks++
				data := vtypes.KeepAliveData{ValAddr: x.v.Val(), ContactedAt: chain.BlockTime(c.H - c12TTL), AliveUntilBlockHeight: c.H, PigeonVersion: "v2.0.0"}
				bz, _ := json.Marshal(data)
				c.Ctx().KVStore(c.App.GetKey("valset")).Set(append([]byte("keep-alive/"), x.v.Val()...), bz)
				x.aliveUntil = c.H
				log = append(log, fmt.Sprintf("h%d:streak(v%d)", c.H, x.v.Index))
				waitJailed := func() bool {
					for i := 0; i < 60 && !x.jailed; i++ {
						run(t)
					}
					return x.jailed
				}
				if !waitJailed() {
					return
				}
				for i := 0; i < 200; i++ {
					run(t)
				}
				for round := 0; round < 2; round++ {
					if x.lastDur > 20*time.Minute || !unjailOne(t, x) || !waitJailed() {
						return
					}
				}
				log = append(log, fmt.Sprintf("h%d:streakDone(v%d,last sentence %s)", c.H, x.v.Index, x.lastDur))
				streakDone = true
			},
			// the minimum is raised (at once) above the version some relayer was last accepted with, and that relayer -
			// not upgraded - sends its next keep-alive
			"raiseAndRenew": func(t *rapid.T) {
				var cands []*c12Val
				for _, x := range vals {
					if last := lastAccepted[x.v.Index]; last != "" && semverLess(last, "v3.1.4") {
						cands = append(cands, x)
					}
				}
				if len(cands) == 0 {
					t.Skip("no relayer on record")
				}
				x := cands[rapid.IntRange(0, len(cands)-1).Draw(t, "val")]
				ver := lastAccepted[x.v.Index]
				var higher []string
				for _, v := range []string{"v1.12.0", "v2.0.0", "v3.1.4"} {
					if semverLess(ver, v) {
						higher = append(higher, v)
					}
				}
				nv := rapid.SampledFrom(higher).Draw(t, "minVersion")
				cctx, write := c.Ctx().CacheContext()
				if err := valset.NewValsetProposalHandler(c.App.ValsetKeeper)(cctx, &vtypes.SetPigeonRequirementsProposal{Title: "t", Description: "d", MinVersion: nv}); err == nil {
					write()
					if semverLess(minVersion, nv) {
						minVersion = nv
					}
				}
				log = append(log, fmt.Sprintf("h%d:raiseMinVersion(%s)", c.H, nv))
				h := c.H
				oks := step(t, c.MustSign(x.v.Actor, &vtypes.MsgKeepAlive{Metadata: chain.MD(x.v.Actor), PigeonVersion: ver}))
				renewalBelowMinimum = true
				if oks[0] {
					if semverLess(ver, minVersion) {
						t.Fatalf("keep-alive with relayer version %s accepted, minimum is %s\nhistory: %v", ver, minVersion, log)
					}
					x.aliveUntil = h + c12TTL
				}
				judge(t, h)
				log = append(log, fmt.Sprintf("h%d:keepAlive(v%d,%s)=%v", h, x.v.Index, ver, oks[0]))
			},
			"setMinVersion": func(t *rapid.T) {
				ver := rapid.SampledFrom([]string{"v1.11.3", "v1.12.0", "v2.0.0", "v1.0.0", "v0.9.0", "garbage"}).Draw(t, "minVersion")
				target := uint64(0)
				if rapid.Bool().Draw(t, "scheduled") {
					target = uint64(c.H + int64(rapid.IntRange(1, 15).Draw(t, "in")))
				}
				cctx, write := c.Ctx().CacheContext()
				err := valset.NewValsetProposalHandler(c.App.ValsetKeeper)(cctx, &vtypes.SetPigeonRequirementsProposal{Title: "t", Description: "d", MinVersion: ver, TargetBlockHeight: target})
				if err == nil {
					write()
				}
				log = append(log, fmt.Sprintf("h%d:setMinVersion(%s,at=%d)=%v", c.H, ver, target, err == nil))
			},
			"": func(t *rapid.T) {
				req, err := c.App.ValsetKeeper.PigeonRequirements(c.ReadCtx())
				if err != nil {
					t.Fatalf("requirements: %v", err)
				}
				if semverLess(req.MinVersion, minVersion) {
					t.Fatalf("minimum relayer version decreased from %s to %s\nhistory: %v", minVersion, req.MinVersion, log)
				}
				minVersion = req.MinVersion
			},
		})
		anyComma := false
		for _, b := range commas {
			anyComma = anyComma || b
		}
		nt := expiredWhileOtherAlive && (anyComma || unjails > 0)
		labels := []string{fmt.Sprintf("jailings=%d", min(jailings, 5)), fmt.Sprintf("unjails=%d", min(unjails, 3))}
		if anyComma {
			labels = append(labels, "commaAddress")
		}
		if expiredWhileOtherAlive {
			labels = append(labels, "expiredWhileOtherAlive")
		}
		cm := make([]string, n)
		for i := range cm {
			cm[i] = fmt.Sprintf("v%d:%d%s", i, stakes[i]/1_000_000, map[bool]string{true: ",", false: ""}[commas[i]])
		}
		sort.Strings(cm)
		if streakDone {
			labels = append(labels, "threeJailingsInARow")
		}
		if renewalBelowMinimum {
			labels = append(labels, "sameVersionRenewalBelowRaisedMinimum")
		}
		evid.Case(t.Name(), strings.Join(cm, " ")+" | "+strings.Join(log, " "), nt, labels, func() any { return map[string]any{"validators(power,','=address contains 0x2c)": cm, "history": log} })
	})
}

// semverLess: a < b under golang.org/x/mod/semver rules restricted to the forms used here (invalid < valid).
func semverLess(a, b string) bool {
	pa, oka := parseSemver(a)
	pb, okb := parseSemver(b)
	if !oka && !okb {
		return false
	}
	if !oka {
		return true
	}
	if !okb {
		return false
	}
	for i := 0; i < 3; i++ {
		if pa[i] != pb[i] {
			return pa[i] < pb[i]
		}
	}
	return false
}

func parseSemver(s string) ([3]int, bool) {
	var out [3]int
	if !strings.HasPrefix(s, "v") {
		return out, false
	}
	parts := strings.Split(s[1:], ".")
	if len(parts) != 3 {
		return out, false
	}
	for i, p := range parts {
		n := 0
		if p == "" {
			return out, false
		}
		for _, ch := range p {
			if ch < '0' || ch > '9' {
				return out, false
			}
			n = n*10 + int(ch-'0')
		}
		out[i] = n
	}
	return out, true
}
