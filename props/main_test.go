package props

import (
	"testing"

	"verif/harness/evid"
)

func TestMain(m *testing.M) { evid.Main(m) }
