package props

import (
	"testing"

	"verif/harness/chain"
	"verif/harness/evid"
)

func TestMain(m *testing.M) {
	chain.Init()
	evid.Main(m)
}
