package props

// C08 — state transitions are a deterministic function of chain history: the same generated history is executed
// twice (sequentially; only one App may live per process) under different nuisance settings — process environment,
// node restarts between blocks, extra read-only queries that exercise in-memory caches — and every block must
// produce byte-identical app hash, transaction results, events and validator updates.

import (
	"crypto/sha256"
	"encoding/hex"
	"encoding/json"
	"fmt"
	codectypes "github.com/cosmos/cosmos-sdk/codec/types"
	"os"
	"sort"
	"strings"
	"testing"
	"time"

	sdkmath "cosmossdk.io/math"
	abci "github.com/cometbft/cometbft/abci/types"
	sdk "github.com/cosmos/cosmos-sdk/types"
	stakingtypes "github.com/cosmos/cosmos-sdk/x/staking/types"
	"pgregory.net/rapid"

	consensustypes "github.com/palomachain/paloma/v2/x/consensus/types"
	evmtypes "github.com/palomachain/paloma/v2/x/evm/types"
	palomatypes "github.com/palomachain/paloma/v2/x/paloma/types"
	schedtypes "github.com/palomachain/paloma/v2/x/scheduler/types"
	skywaytypes "github.com/palomachain/paloma/v2/x/skyway/types"
	treasurytypes "github.com/palomachain/paloma/v2/x/treasury/types"
	vtypes "github.com/palomachain/paloma/v2/x/valset/types"

	"verif/harness/chain"
	"verif/harness/evid"
)

const c08Chain = "eth-main"

// jobs, transfers and claims use eth-main; the other chains exist so that validators can lose support for several chains
// of one type (the periodic jailing for missing chain accounts records the list of missing chains as the reason)
var c08Chains = []chain.EvmChain{{RefID: c08Chain, ChainID: 1}, {RefID: "bnb-main", ChainID: 56}, {RefID: "base-main", ChainID: 8453}, {RefID: "gno-main", ChainID: 100}}

const c08ERC20 = "0x00000000000000000000000000000000000000E1"
const c08EnvFlag = "PALOMA_FF_PIGEON_STATUS_UPDATE"

type c08Op struct {
	Kind string
	A, B int
	S    string
	L    []int
}

type c08Nuisance struct {
	Env      map[string]string // variables set for the run
	Restarts map[int]bool      // restart before op i
	Queries  map[int]bool      // run read-only queries before op i
	Epoch    int64             // all block times shifted by this many seconds (third execution only)
}

// c08Abstract describes a block without anything that contains an absolute time: transaction outcomes, the kinds of
// events, validator updates, the number of messages in every consensus queue and the current snapshot id. Two executions
// of one history whose clocks differ by a constant must agree on it.
func c08Abstract(c *chain.Chain, res *abci.ResponseFinalizeBlock) string {
	var parts []string
	for i, r := range res.TxResults {
		parts = append(parts, fmt.Sprintf("tx%d=%d/%s", i, r.Code, r.Codespace))
	}
	kinds := map[string]int{}
	for _, e := range res.Events {
		kinds[e.Type]++
	}
	for _, r := range res.TxResults {
		for _, e := range r.Events {
			kinds[e.Type]++
		}
	}
	ks := make([]string, 0, len(kinds))
	for k, n := range kinds {
		ks = append(ks, fmt.Sprintf("%s*%d", k, n))
	}
	sort.Strings(ks)
	parts = append(parts, strings.Join(ks, ","))
	parts = append(parts, fmt.Sprintf("valUpdates=%d", len(res.ValidatorUpdates)))
	ctx := c.ReadCtx()
	for _, ec := range c08Chains {
		for _, sub := range []string{"evm-turnstone-message", "validators-balances", "reference-block"} {
			ms, _ := c.App.ConsensusKeeper.GetMessagesFromQueue(ctx, consensustypes.Queue(sub, "evm", ec.RefID), 0)
			parts = append(parts, fmt.Sprintf("%s/%s=%d", ec.RefID, sub, len(ms)))
		}
	}
	if snap, err := c.App.ValsetKeeper.GetCurrentSnapshot(ctx); err == nil && snap != nil {
		parts = append(parts, fmt.Sprintf("snapshot=%d/%d", snap.Id, len(snap.Validators)))
	}
	return strings.Join(parts, " ")
}

func c08Digest(res *abci.ResponseFinalizeBlock) (string, []string) {
	h := sha256.New()
	var parts []string
	parts = append(parts, "apphash="+hex.EncodeToString(res.AppHash))
	for i, r := range res.TxResults {
		ev, _ := json.Marshal(r.Events)
		parts = append(parts, fmt.Sprintf("tx%d code=%d codespace=%s gasUsed=%d gasWanted=%d data=%x events=%x", i, r.Code, r.Codespace, r.GasUsed, r.GasWanted, r.Data, sha256.Sum256(ev)))
	}
	ev, _ := json.Marshal(res.Events)
	parts = append(parts, fmt.Sprintf("blockEvents=%x", sha256.Sum256(ev)))
	vu, _ := json.Marshal(res.ValidatorUpdates)
	parts = append(parts, "valUpdates="+string(vu))
	for _, p := range parts {
		h.Write([]byte(p))
	}
	return hex.EncodeToString(h.Sum(nil)), parts
}

// c08Run executes the history on a fresh chain and returns one digest per block.
func c08Run(t *rapid.T, salt string, stakes []int64, ops []c08Op, nu c08Nuisance) (digests []string, details [][]string, labels map[string]bool, abstract []string) {
	labels = map[string]bool{}
	for k, v := range nu.Env {
		os.Setenv(k, v)
	}
	defer func() {
		for k := range nu.Env {
			os.Unsetenv(k)
		}
	}()
	// Go reads TZ once per process, so a node started with another TZ is imitated by replacing the process's local zone
	// for the duration of this execution (the test process runs one execution at a time).
	if _, ok := nu.Env["TZ"]; ok {
		old := time.Local
		time.Local = time.FixedZone("LINT", 14*3600) // Pacific/Kiritimati
		defer func() { time.Local = old }()
	}
	c, err := chain.New(chain.Options{Salt: salt, Stakes: stakes, InitialHeight: 544, Users: []string{"ua", "ub"}, EvmChains: c08Chains, EpochShift: nu.Epoch})
	if err != nil {
		t.Fatalf("boot: %v", err)
	}
	defer func() { c.Close() }()
	rec := func(res *abci.ResponseFinalizeBlock, err error) {
		if err != nil {
			t.Fatalf("block: %v", err)
		}
		d, parts := c08Digest(res)
		digests = append(digests, d)
		details = append(details, parts)
		abstract = append(abstract, c08Abstract(c, res))
	}
	block := func(txs ...[]byte) { rec(c.Block(txs...)) }
	// setup (same in both runs)
	if err := c.Ready(); err != nil {
		t.Fatalf("ready: %v", err)
	}
	ua, ub := c.Users["ua"], c.Users["ub"]
	tok, err := c.SetupToken(ub, "tok", sdkmath.NewInt(1_000_000_000), c08Chain, c08ERC20)
	if err != nil {
		t.Fatalf("token: %v", err)
	}
	def, _ := json.Marshal(evmtypes.JobDefinition{ABI: "[]", Address: "0x00000000000000000000000000000000000000aa"})
	pl, _ := json.Marshal(evmtypes.JobPayload{HexPayload: "0xdeadbeef"})
	block(c.MustSign(ua, &schedtypes.MsgCreateJob{Metadata: chain.MD(ua), Job: &schedtypes.Job{ID: "j1", Routing: schedtypes.Routing{ChainType: "evm", ChainReferenceID: c08Chain}, Definition: def, Payload: pl}}))
	q := chain.TurnstoneQueue(c08Chain)
	skyNonce := uint64(0)
	compassGen := 0
	n := len(c.Vals)
	queries := func() {
		ctx := c.ReadCtx()
		for _, v := range c.Vals {
			_, _ = c.App.ConsensusKeeper.GetMessagesForRelaying(ctx, q, v.Val())
			_, _ = c.App.ConsensusKeeper.GetMessagesForSigning(ctx, q, v.Val())
			_, _ = c.App.ConsensusKeeper.GetMessagesForGasEstimation(ctx, q, v.Val())
		}
		_, _, _ = c.App.EvmKeeper.PickValidatorForMessage(ctx, c08Chain, nil)
		_, _, _ = c.App.EvmKeeper.PickValidatorForMessage(ctx, c08Chain, nil)
		_, _ = c.App.ValsetKeeper.GetCurrentSnapshot(ctx)
		_, _ = c.App.MetrixKeeper.Validators(ctx, nil)
	}
	for i, op := range ops {
		if nu.Restarts[i] {
			c.Restart()
			labels["restart"] = true
		}
		if nu.Queries[i] {
			queries()
		}
		switch op.Kind {
		case "status":
			v := c.Vals[op.A%n]
			block(c.MustSign(v.Actor, &palomatypes.MsgAddStatusUpdate{Metadata: chain.MD(v.Actor), Status: op.S, Level: palomatypes.MsgAddStatusUpdate_Level(op.B)}))
			if op.B > 2 {
				labels["unknownStatusLevel"] = true
			}
		case "exec":
			u := []chain.Actor{ua, ub}[op.A%2]
			block(c.MustSign(u, &schedtypes.MsgExecuteJob{Metadata: chain.MD(u), JobID: "j1"}))
			labels["relayerSelection"] = true
		case "fee":
			v := c.Vals[op.A%n]
			block(c.MustSign(v.Actor, &treasurytypes.MsgUpsertRelayerFee{Metadata: chain.MD(v.Actor), FeeSetting: &treasurytypes.RelayerFeeSetting{ValAddress: v.Val().String(), Fees: []treasurytypes.RelayerFeeSetting_FeeSetting{{ChainReferenceId: c08Chain, Multiplicator: sdkmath.LegacyMustNewDecFromStr(op.S)}}}}))
		case "keepAlive":
			v := c.Vals[op.A%n]
			block(c.MustSign(v.Actor, &vtypes.MsgKeepAlive{Metadata: chain.MD(v.Actor), PigeonVersion: "v2.0.0"}))
		case "delegate":
			v := c.Vals[op.A%n]
			block(c.MustSign(ua, stakingtypes.NewMsgDelegate(ua.Addr.String(), v.Val().String(), sdk.NewCoin(chain.BondDenom, sdkmath.NewInt(int64(op.B+1)*1_000_000)))))
		case "estimates":
			ms, _ := c.App.ConsensusKeeper.GetMessagesFromQueue(c.ReadCtx(), q, 0)
			var need []uint64
			for _, m := range ms {
				if m.GetRequireGasEstimation() && m.GetGasEstimate() == 0 {
					need = append(need, m.GetId())
				}
			}
			if len(need) == 0 {
				block()
				break
			}
			id := need[op.A%len(need)]
			var txs [][]byte
			for j, v := range c.Vals {
				txs = append(txs, c.MustSign(v.Actor, &consensustypes.MsgAddMessageGasEstimates{Metadata: chain.MD(v.Actor), Estimates: []*consensustypes.MsgAddMessageGasEstimates_GasEstimate{{MsgId: id, QueueTypeName: q, Value: uint64(21000 + op.L[j%len(op.L)]), EstimatedByAddress: chain.EthAddr(v.EthKeys[c08Chain]).Hex()}}}))
			}
			block(txs...)
		case "evidence":
			ms, _ := c.App.ConsensusKeeper.GetMessagesFromQueue(c.ReadCtx(), q, 0)
			if len(ms) == 0 {
				block()
				break
			}
			m := ms[op.A%len(ms)]
			var txs [][]byte
			groups := map[int]bool{}
			for j, v := range c.Vals {
				g := op.L[j%len(op.L)] % 3
				groups[g] = true
				proof, _ := codecAny(&evmtypes.SmartContractExecutionErrorProof{ErrorMessage: fmt.Sprintf("err-%d", g)})
				txs = append(txs, c.MustSign(v.Actor, &consensustypes.MsgSetErrorData{Metadata: chain.MD(v.Actor), MessageID: m.GetId(), QueueTypeName: q, Data: []byte("x")},
					&consensustypes.MsgAddEvidence{Metadata: chain.MD(v.Actor), Proof: proof, MessageID: m.GetId(), QueueTypeName: q}))
			}
			if len(groups) >= 2 {
				labels["evidenceTallyWith>=2Groups"] = true
			}
			block(txs...)
		case "send":
			block(c.MustSign(ub, &skywaytypes.MsgSendToRemote{Metadata: chain.MD(ub), EthDest: "0x00000000000000000000000000000000000000d1", Amount: sdk.NewCoin(tok.Denom, sdkmath.NewInt(int64(op.A+1))), ChainReferenceId: c08Chain}))
		case "deposit":
			skyNonce++
			var txs [][]byte
			for j, v := range c.Vals {
				if op.L[j%len(op.L)]%4 == 0 {
					continue
				}
				txs = append(txs, c.MustSign(v.Actor, &skywaytypes.MsgSendToPalomaClaim{Metadata: chain.MD(v.Actor), Orchestrator: v.Addr.String(), EventNonce: skyNonce, SkywayNonce: skyNonce, EthBlockHeight: 100 + skyNonce, TokenContract: c08ERC20, Amount: sdkmath.NewInt(int64(op.A + 1)),
					EthereumSender: "0x00000000000000000000000000000000000000b1", PalomaReceiver: ua.Addr.String(), ChainReferenceId: c08Chain, CompassId: "compass-1"}))
			}
			block(txs...)
		case "advance":
			for k := 0; k < op.A; k++ {
				block()
			}
		case "dropChains":
			// the validator replaces its set of remote accounts: eth-main plus a generated subset of the others
			v := c.Vals[op.A%n]
			var infos []*vtypes.ExternalChainInfo
			for j, ec := range c08Chains {
				if j > 0 && op.L[j%len(op.L)]%2 == 0 {
					continue
				}
				ea := chain.EthAddr(v.EthKeys[ec.RefID])
				infos = append(infos, &vtypes.ExternalChainInfo{ChainType: "evm", ChainReferenceID: ec.RefID, Address: ea.Hex(), Pubkey: ea.Bytes()})
			}
			if len(c08Chains)-len(infos) >= 2 {
				labels["validatorMissing>=2Chains"] = true
			}
			block(c.MustSign(v.Actor, &vtypes.MsgAddExternalChainInfoForValidator{Metadata: chain.MD(v.Actor), ChainInfos: infos}))
		case "toNext303":
			// the chain starts at height 544: the first multiple of 303 ahead is 606; later ones are too far to walk to
			target := (c.H/303 + 1) * 303
			if target-c.H > 80 {
				block()
				break
			}
			if !labels["validatorMissing>=2Chains"] {
				// make sure somebody lacks several chains when the jailing height comes: validator A keeps eth-main and one
				// of the three others
				v := c.Vals[op.A%n]
				var infos []*vtypes.ExternalChainInfo
				for j, ec := range c08Chains {
					if j > 0 && j != 1+op.L[0]%3 {
						continue
					}
					ea := chain.EthAddr(v.EthKeys[ec.RefID])
					infos = append(infos, &vtypes.ExternalChainInfo{ChainType: "evm", ChainReferenceID: ec.RefID, Address: ea.Hex(), Pubkey: ea.Bytes()})
				}
				labels["validatorMissing>=2Chains"] = true
				block(c.MustSign(v.Actor, &vtypes.MsgAddExternalChainInfoForValidator{Metadata: chain.MD(v.Actor), ChainInfos: infos}))
			}
			for c.H <= target {
				block()
			}
			if labels["validatorMissing>=2Chains"] {
				labels["missingChainsJailingHeight"] = true
			}
		case "activateCompass":
			// a new compass deployment becomes active on eth-main (fixture, as in C02): the evm module announces it on
			// the in-process event bus and the bridge module resets its oracle cursor and deployment id in the same block
			ctx := c.Ctx()
			if sc, err := c.App.EvmKeeper.GetLastCompassContract(ctx); err == nil {
				compassGen++
				_ = c.App.EvmKeeper.ActivateChainReferenceID(ctx, c08Chain, sc, "0x00000000000000000000000000000000000000c1", []byte(fmt.Sprintf("compass-%d", compassGen+1)))
			}
			block()
			labels["compassActivation"] = true
		case "toNext50":
			target := (c.H/50 + 1) * 50
			for c.H <= target {
				block()
			}
			labels["snapshotBuildHeight"] = true
		}
	}
	return digests, details, labels, abstract
}

func TestC08_TwinExecutionsAgree(t *testing.T) {
	evid.Check(t, 40, 200, func(t *rapid.T) {
		salt := fmt.Sprintf("c08-%d", rapid.IntRange(0, 1<<30).Draw(t, "salt"))
		n := rapid.IntRange(3, 6).Draw(t, "nVals")
		stakes := make([]int64, n)
		equal := rapid.Bool().Draw(t, "equalStakes") // equal stakes + equal fees => score ties in relayer selection
		for i := range stakes {
			stakes[i] = 100_000_000
			if !equal {
				stakes[i] = int64(rapid.IntRange(50, 150).Draw(t, "stake")) * 1_000_000
			}
		}
		kinds := []string{"status", "status", "exec", "exec", "fee", "keepAlive", "delegate", "estimates", "evidence", "send", "deposit", "advance", "toNext50", "dropChains", "dropChains", "toNext303", "activateCompass"}
		nops := rapid.IntRange(5, 25).Draw(t, "nOps")
		ops := make([]c08Op, nops)
		for i := range ops {
			k := rapid.SampledFrom(kinds).Draw(t, "kind")
			op := c08Op{Kind: k, A: rapid.IntRange(0, 9).Draw(t, "a"), L: rapid.SliceOfN(rapid.IntRange(0, 9), 3, 6).Draw(t, "l")}
			switch k {
			case "status":
				op.B = rapid.IntRange(0, 5).Draw(t, "level")
				op.S = rapid.SampledFrom([]string{"ok", "", "status %s %d"}).Draw(t, "status")
			case "fee":
				op.S = rapid.SampledFrom([]string{"1.1", "1.1", "2", "0.7"}).Draw(t, "mult")
			case "delegate":
				op.B = rapid.IntRange(0, 40).Draw(t, "power")
			case "advance":
				op.A = rapid.IntRange(1, 12).Draw(t, "blocks")
			}
			ops[i] = op
		}
		nuA := c08Nuisance{Env: map[string]string{}, Restarts: map[int]bool{}, Queries: map[int]bool{}}
		nuB := c08Nuisance{Env: map[string]string{}, Restarts: map[int]bool{}, Queries: map[int]bool{}}
		switch rapid.IntRange(0, 3).Draw(t, "envB") {
		case 0:
			nuB.Env[c08EnvFlag] = "1"
		case 1:
			nuB.Env[c08EnvFlag] = ""
		case 2:
			nuB.Env["PALOMA_UNRELATED_VARIABLE"] = "x"
			nuB.Env["TZ"] = "Pacific/Kiritimati"
		}
		for i := range ops {
			if rapid.IntRange(0, 5).Draw(t, "restartB") == 0 {
				nuB.Restarts[i] = true
			}
			if rapid.IntRange(0, 2).Draw(t, "queryB") == 0 {
				nuB.Queries[i] = true
			}
		}
		dA, detA, labA, absA := c08Run(t, salt, stakes, ops, nuA)
		dB, detB, labB, _ := c08Run(t, salt, stakes, ops, nuB)
		// Third execution, in a third of the cases: the same history on a chain whose clock runs in the year 2100 instead
		// of 2023 (all block times moved by a constant, so every difference between chain times is unchanged; the
		// machine's own clock lies between the two). Byte equality is not expected - times are part of the state - but
		// the time-free description of every block must be the same: chain logic may look at chain time only.
		if rapid.IntRange(0, 2).Draw(t, "thirdRunInAnotherEpoch") == 0 {
			nuC := c08Nuisance{Env: map[string]string{}, Restarts: map[int]bool{}, Queries: map[int]bool{}, Epoch: 4102444800 - chain.T0}
			_, _, _, absC := c08Run(t, salt, stakes, ops, nuC)
			if len(absA) != len(absC) {
				t.Fatalf("executions in two epochs produced %d and %d blocks", len(absA), len(absC))
			}
			for i := range absA {
				if absA[i] != absC[i] {
					opsJSON, _ := json.Marshal(ops)
					t.Fatalf("the same history gives different results when the chain's clock stands in 2100 instead of 2023 (block index %d)\n    2023: %s\n    2100: %s\nhistory: %s", i, absA[i], absC[i], opsJSON)
				}
			}
			labA["epochShiftRun"] = true
		}
		if len(dA) != len(dB) {
			t.Fatalf("twin executions produced %d and %d blocks", len(dA), len(dB))
		}
		for i := range dA {
			if dA[i] != dB[i] {
				var diff []string
				for j := range detA[i] {
					if j < len(detB[i]) && detA[i][j] != detB[i][j] {
						diff = append(diff, fmt.Sprintf("A: %s\n      B: %s", detA[i][j], detB[i][j]))
					}
				}
				opsJSON, _ := json.Marshal(ops)
				t.Fatalf("twin executions diverge at block index %d (nuisance of B: env %v restarts %v queries %d)\n    %s\nhistory: %s", i, nuB.Env, keysOf(nuB.Restarts), len(nuB.Queries), strings.Join(diff, "\n    "), opsJSON)
			}
		}
		labels := []string{}
		for l := range labA {
			labels = append(labels, l)
		}
		for l := range labB {
			if !labA[l] {
				labels = append(labels, l)
			}
		}
		if equal {
			labels = append(labels, "scoreTiesPossible")
		}
		if len(nuB.Env) > 0 {
			labels = append(labels, "envDiffers")
		}
		sort.Strings(labels)
		nt := (equal && labA["relayerSelection"]) || labA["evidenceTallyWith>=2Groups"] || labA["unknownStatusLevel"] || labB["restart"] || labA["missingChainsJailingHeight"]
		opsJSON, _ := json.Marshal(ops)
		evid.Case(t.Name(), fmt.Sprintf("stakes=%v env=%v restarts=%v %s", stakes, nuB.Env, keysOf(nuB.Restarts), opsJSON), nt, labels, func() any {
			return map[string]any{"stakes": stakes, "ops": ops, "nuisanceB": map[string]any{"env": nuB.Env, "restartsBeforeOp": keysOf(nuB.Restarts), "queriesBeforeOps": len(nuB.Queries)}, "blocks": len(dA)}
		})
	})
}

func keysOf(m map[int]bool) []int {
	var ks []int
	for k := range m {
		ks = append(ks, k)
	}
	sort.Ints(ks)
	return ks
}

func codecAny(m interface {
	ProtoMessage()
	Reset()
	String() string
}) (*codectypes.Any, error) {
	return codectypes.NewAnyWithValue(m)
}
