package props

// C09 — begin/end-block processing never aborts: no user-, validator- or governance-supplied value makes
// FinalizeBlock panic or return an error; the rest of the block is unaffected (a canary transaction in every
// block still succeeds).

import (
	"context"
	"encoding/hex"
	"encoding/json"
	"fmt"
	"math/big"
	"os"
	"os/exec"
	"strings"
	"testing"
	"time"

	sdkmath "cosmossdk.io/math"
	codectypes "github.com/cosmos/cosmos-sdk/codec/types"
	sdk "github.com/cosmos/cosmos-sdk/types"
	govv1beta1 "github.com/cosmos/cosmos-sdk/x/gov/types/v1beta1"
	stakingtypes "github.com/cosmos/cosmos-sdk/x/staking/types"
	ethcommon "github.com/ethereum/go-ethereum/common"
	ethtypes "github.com/ethereum/go-ethereum/core/types"
	"pgregory.net/rapid"

	consensustypes "github.com/palomachain/paloma/v2/x/consensus/types"
	"github.com/palomachain/paloma/v2/x/evm"
	evmtypes "github.com/palomachain/paloma/v2/x/evm/types"
	palomatypes "github.com/palomachain/paloma/v2/x/paloma/types"
	schedtypes "github.com/palomachain/paloma/v2/x/scheduler/types"
	skywaykeeper "github.com/palomachain/paloma/v2/x/skyway/keeper"
	skywaytypes "github.com/palomachain/paloma/v2/x/skyway/types"
	treasurytypes "github.com/palomachain/paloma/v2/x/treasury/types"
	"github.com/palomachain/paloma/v2/x/valset"
	vtypes "github.com/palomachain/paloma/v2/x/valset/types"

	keeperutil "github.com/palomachain/paloma/v2/util/keeper"

	"verif/harness/chain"
	"verif/harness/evid"
)

const c09Chain = "eth-main"

// second remote chain (validators register fees for both chains in one message; jobs run on either)
const c09Chain2 = "bnb-main"
const c09ERC20 = "0x00000000000000000000000000000000000000E1"

var c09Multiplicators = []string{"1.1", "-1", "-0.000000000000000001", "0", "1000000000000000000000000000000", "340282366920938463463374607431768211455", "0.000000000000000001", "18446744073709551616",
	// the extremes a LegacyDec survives (un)marshalling with: +-(2^256 - 10^-18), and -2^255
	"115792089237316195423570985008687907853269984665640564039457584007913129639935.999999999999999999",
	"-115792089237316195423570985008687907853269984665640564039457584007913129639935.999999999999999999",
	"-57896044618658097711785492504343953926634992332820282019728792003956564819968", "unset"}

func c09GovContent(c *chain.Chain, content govv1beta1.Content, h govv1beta1.Handler) (err error) {
	defer func() {
		if r := recover(); r != nil {
			err = fmt.Errorf("proposal handler panicked (proposal fails): %v", r)
		}
	}()
	cctx, write := c.Ctx().CacheContext()
	if err := h(cctx, content); err != nil {
		return err
	}
	write()
	return nil
}

func TestC09_BlocksNeverAbort(t *testing.T) {
	evid.Check(t, 80, 400, func(t *rapid.T) {
		salt := fmt.Sprintf("c09-%d", rapid.IntRange(0, 1<<30).Draw(t, "salt"))
		// start just below a housekeeping height class
		base := rapid.SampledFrom([]int64{7, 44, 296, 299, 290, 600, 9990, 15146}).Draw(t, "startHeight") // 15150 = 50*303
		n := rapid.IntRange(3, 5).Draw(t, "nVals")
		stakes := make([]int64, n)
		for i := range stakes {
			stakes[i] = 100_000_000
		}
		c, err := chain.New(chain.Options{Salt: salt, Stakes: stakes, InitialHeight: base, Users: []string{"ub", "canary", "sink"}, EvmChains: []chain.EvmChain{{RefID: c09Chain, ChainID: 1}, {RefID: c09Chain2, ChainID: 56}}})
		if err != nil {
			t.Fatalf("boot: %v", err)
		}
		defer c.Close()
		if err := c.Ready(); err != nil {
			t.Fatalf("ready: %v", err)
		}
		ub, canary, sink := c.Users["ub"], c.Users["canary"], c.Users["sink"]
		huge, _ := sdkmath.NewIntFromString("57896044618658097711785492504343953926634992332820282019728792003956564819968") // 2^255
		tok, err := c.SetupToken(ub, "tok", huge, c09Chain, c09ERC20)
		if err != nil {
			t.Fatalf("token: %v", err)
		}
		def, _ := json.Marshal(evmtypes.JobDefinition{ABI: "[]", Address: "0x00000000000000000000000000000000000000aa"})
		pl, _ := json.Marshal(evmtypes.JobPayload{HexPayload: "0xdeadbeef"})
		if res, err := c.Block(c.MustSign(ub, &schedtypes.MsgCreateJob{Metadata: chain.MD(ub), Job: &schedtypes.Job{ID: "j1", Routing: schedtypes.Routing{ChainType: "evm", ChainReferenceID: c09Chain}, Definition: def, Payload: pl, IsPayloadModifiable: true}})); err != nil || res.TxResults[0].Code != 0 {
			t.Fatalf("job: %v", err)
		}
		if res, err := c.Block(c.MustSign(ub, &schedtypes.MsgCreateJob{Metadata: chain.MD(ub), Job: &schedtypes.Job{ID: "j2", Routing: schedtypes.Routing{ChainType: "evm", ChainReferenceID: c09Chain2}, Definition: def, Payload: pl, IsPayloadModifiable: true}})); err != nil || res.TxResults[0].Code != 0 {
			t.Fatalf("job: %v", err)
		}
		// the chain whose message queue the turnstone actions below work on (switchChain toggles it)
		q, job := chain.TurnstoneQueue(c09Chain), "j1"
		var log []string
		hostileAccepted := 0
		crossedHousekeeping := false
		idSkips := 0
		scheduledVersions := 0
		var witnesses []*chain.Validator
		left, longAdvance := false, false
		skyNonce := uint64(0)

		// every block carries a canary transfer that must succeed
		block := func(t *rapid.T, what string, txs ...[]byte) []bool {
			h := c.H
			can := c.MustSign(canary, &banktypesMsgSend{FromAddress: canary.Addr.String(), ToAddress: sink.Addr.String(), Amount: sdk.NewCoins(sdk.NewCoin(chain.BondDenom, sdkmath.NewInt(1)))})
			res, err := c.Block(append([][]byte{can}, txs...)...)
			if err != nil {
				t.Fatalf("block production aborted at height %d after %s: %v\nhistory: %v", h, what, err, log)
			}
			if res.TxResults[0].Code != 0 {
				t.Fatalf("canary transaction failed at height %d after %s: %s\nhistory: %v", h, what, res.TxResults[0].Log, log)
			}
			if hostileAccepted > 0 && (h%10 == 0 || h%50 == 0 || h%300 == 0 || h%303 == 0) {
				crossedHousekeeping = true
			}
			oks := make([]bool, len(txs))
			for i := range txs {
				oks[i] = res.TxResults[i+1].Code == 0
			}
			return oks
		}
		hostile := func(ok bool) {
			if ok {
				hostileAccepted++
			}
		}

		skipIds := func(t *rapid.T) {
			idSkips++
			delta := uint64(rapid.SampledFrom([]int{999, 1000, 1001, 1500, 5000}).Draw(t, "delta"))
			ctx := c.Ctx()
			ider := keeperutil.NewIDGenerator(c.App.ConsensusKeeper, nil)
			const counter = "consensus-queue-counter-"
			cur := ider.GetLastID(ctx, counter)
			c.App.ConsensusKeeper.Store(ctx).Set(append([]byte("generated-ids-"), counter...), keeperutil.Uint64ToByte(cur+delta))
			if got := ider.GetLastID(ctx, counter); got != cur+delta {
				t.Fatalf("fixture: message id counter is %d, expected %d", got, cur+delta)
			}
			block(t, "skipMessageIds")
			log = append(log, fmt.Sprintf("h%d:skipMessageIds(%d->%d)", c.H-1, cur, cur+delta))
		}
		// half of the chains have a long history behind them already
		if rapid.Bool().Draw(t, "longHistoryBehind") {
			skipIds(t)
		}
		// governance sets the minimum relayer version, at once or scheduled for a height a few blocks ahead; proposals
		// overtake, repeat and contradict each other
		versionProposal := func(t *rapid.T) {
			ver := rapid.SampledFrom([]string{"v1.11.3", "v1.12.0", "v1.13.0", "v2.0.0", "v1.12.0", "v0.9.0", "garbage", ""}).Draw(t, "minVersion")
			target := uint64(0)
			if rapid.IntRange(0, 2).Draw(t, "scheduled") > 0 {
				target = uint64(c.H + int64(rapid.SampledFrom([]int{-1, 0, 1, 2, 3, 5, 8, 9}).Draw(t, "in")))
			}
			err := c09GovContent(c, &vtypes.SetPigeonRequirementsProposal{Title: "t", Description: "d", MinVersion: ver, TargetBlockHeight: target}, valset.NewValsetProposalHandler(c.App.ValsetKeeper))
			log = append(log, fmt.Sprintf("h%d:gov(minRelayerVersion %q at %d)=%v", c.H, ver, target, err == nil))
			if err == nil && target > uint64(c.H) {
				scheduledVersions++
				// the schedule is overtaken by a proposal that takes effect at once, and the chain walks to the
				// scheduled height
				if rapid.Bool().Draw(t, "overtaken") {
					nv := rapid.SampledFrom([]string{"v1.12.0", "v1.13.0", "v2.0.0", "v2.1.0", "v1.11.3"}).Draw(t, "overtakingVersion")
					err2 := c09GovContent(c, &vtypes.SetPigeonRequirementsProposal{Title: "t", Description: "d", MinVersion: nv}, valset.NewValsetProposalHandler(c.App.ValsetKeeper))
					log = append(log, fmt.Sprintf("h%d:gov(minRelayerVersion %q at once)=%v", c.H, nv, err2 == nil))
					for uint64(c.H) <= target {
						block(t, "relayerVersionProposal")
					}
				}
			}
			block(t, "relayerVersionProposal")
		}
		// a third of the chains start with relayer-version governance under way
		if rapid.IntRange(0, 2).Draw(t, "versionGovernanceUnderWay") == 0 {
			versionProposal(t)
		}
		t.Repeat(map[string]func(*rapid.T){
			"relayerFee": func(t *rapid.T) {
				v := c.Vals[rapid.IntRange(0, n-1).Draw(t, "val")]
				m := rapid.SampledFrom(c09Multiplicators).Draw(t, "mult")
				var dec sdkmath.LegacyDec // "unset": the field is absent from the transaction
				if m != "unset" {
					dec = sdkmath.LegacyMustNewDecFromStr(m)
				}
				// the fee of one chain, or of both in one message (in either order)
				var fees []treasurytypes.RelayerFeeSetting_FeeSetting
				which := rapid.SampledFrom([]string{"eth", "bnb", "eth+bnb", "bnb+eth"}).Draw(t, "chains")
				for _, p := range strings.Split(which, "+") {
					fees = append(fees, treasurytypes.RelayerFeeSetting_FeeSetting{ChainReferenceId: p + "-main", Multiplicator: dec})
				}
				oks := block(t, "relayerFee", c.MustSign(v.Actor, &treasurytypes.MsgUpsertRelayerFee{Metadata: chain.MD(v.Actor), FeeSetting: &treasurytypes.RelayerFeeSetting{ValAddress: v.Val().String(), Fees: fees}}))
				log = append(log, fmt.Sprintf("h%d:fee(v%d,%s,%s)=%v", c.H-1, v.Index, which, m, oks[0]))
				hostile(oks[0] && m != "1.1")
			},
			"switchChain": func(t *rapid.T) {
				if job == "j1" {
					q, job = chain.TurnstoneQueue(c09Chain2), "j2"
				} else {
					q, job = chain.TurnstoneQueue(c09Chain), "j1"
				}
				log = append(log, "switchChain("+job+")")
			},
			"executeJob": func(t *rapid.T) {
				var payload []byte
				switch rapid.IntRange(0, 3).Draw(t, "payload") {
				case 1:
					payload, _ = json.Marshal(evmtypes.JobPayload{HexPayload: "0x" + strings.Repeat("ab", rapid.SampledFrom([]int{0, 1, 4096, 1 << 19}).Draw(t, "len"))})
				case 2:
					payload, _ = json.Marshal(evmtypes.JobPayload{HexPayload: "zz-not-hex"})
				}
				oks := block(t, "executeJob", c.MustSign(ub, &schedtypes.MsgExecuteJob{Metadata: chain.MD(ub), JobID: job, Payload: payload}))
				log = append(log, fmt.Sprintf("h%d:exec(payload %d bytes)=%v", c.H-1, len(payload), oks[0]))
				hostile(oks[0] && len(payload) > 100)
			},
			"estimates": func(t *rapid.T) {
				ms, _ := c.App.ConsensusKeeper.GetMessagesFromQueue(c.ReadCtx(), q, 0)
				var need []uint64
				for _, m := range ms {
					if m.GetRequireGasEstimation() && m.GetGasEstimate() == 0 {
						need = append(need, m.GetId())
					}
				}
				if len(need) == 0 {
					t.Skip("nothing to estimate")
				}
				id := need[rapid.IntRange(0, len(need)-1).Draw(t, "msg")]
				var txs [][]byte
				var vals []uint64
				for _, v := range c.Vals {
					g := rapid.SampledFrom([]uint64{1, 21000, 300000, 1 << 32, 1<<63 - 1, 1 << 63, 1<<64 - 1}).Draw(t, "gas")
					vals = append(vals, g)
					txs = append(txs, c.MustSign(v.Actor, &consensustypes.MsgAddMessageGasEstimates{Metadata: chain.MD(v.Actor), Estimates: []*consensustypes.MsgAddMessageGasEstimates_GasEstimate{{MsgId: id, QueueTypeName: q, Value: g, EstimatedByAddress: chain.EthAddr(v.EthKeys[c09Chain]).Hex()}}}))
				}
				oks := block(t, "estimates", txs...)
				log = append(log, fmt.Sprintf("h%d:estimates(msg %d,%v)=%v", c.H-1, id, vals, oks))
				hostile(oks[0])
			},
			"evidence": func(t *rapid.T) {
				ms, _ := c.App.ConsensusKeeper.GetMessagesFromQueue(c.ReadCtx(), q, 0)
				if len(ms) == 0 {
					t.Skip("empty queue")
				}
				m := ms[rapid.IntRange(0, len(ms)-1).Draw(t, "msg")]
				var proof *codectypes.Any
				switch rapid.IntRange(0, 5).Draw(t, "proofKind") {
				case 4, 5:
					// a well-formed remote transaction with a successful receipt that has nothing to do with the message
					tx := ethtypes.NewTx(&ethtypes.LegacyTx{Nonce: 1, To: &ethcommon.Address{0xc1}, Gas: 21000, GasPrice: big.NewInt(1), Data: []byte{1, 2, 3, 4}})
					txbz, _ := tx.MarshalBinary()
					rbz, _ := (&ethtypes.Receipt{Status: 1, CumulativeGasUsed: 21000}).MarshalBinary()
					proof, _ = codectypes.NewAnyWithValue(&evmtypes.TxExecutedProof{SerializedTX: txbz, SerializedReceipt: rbz})
				case 0:
					proof, _ = codectypes.NewAnyWithValue(&evmtypes.TxExecutedProof{SerializedTX: []byte("not rlp"), SerializedReceipt: []byte{0xff}})
				case 1:
					proof, _ = codectypes.NewAnyWithValue(&evmtypes.TxExecutedProof{})
				case 2:
					proof, _ = codectypes.NewAnyWithValue(&evmtypes.SmartContractExecutionErrorProof{ErrorMessage: strings.Repeat("e", 5000)})
				default:
					proof = &codectypes.Any{TypeUrl: "/palomachain.paloma.evm.TxExecutedProof", Value: []byte{0xff, 0xff, 0xff}}
				}
				var txs [][]byte
				for _, v := range c.Vals {
					txs = append(txs, c.MustSign(v.Actor,
						&consensustypes.MsgSetPublicAccessData{Metadata: chain.MD(v.Actor), MessageID: m.GetId(), QueueTypeName: q, Data: []byte{1}, ValsetID: uint64(rapid.SampledFrom([]int{0, 1, 999}).Draw(t, "valsetID"))},
						&consensustypes.MsgAddEvidence{Metadata: chain.MD(v.Actor), Proof: proof, MessageID: m.GetId(), QueueTypeName: q}))
				}
				oks := block(t, "evidence", txs...)
				log = append(log, fmt.Sprintf("h%d:evidence(msg %d,%s)=%v", c.H-1, m.GetId(), proof.TypeUrl, oks))
				hostile(oks[0])
			},
			// answers to the chain's own periodic questions (validator balances every 300 blocks, reference block every
			// 10000): all validators agree on a hostile answer
			"stateEvidence": func(t *rapid.T) {
				sub := rapid.SampledFrom([]string{"validators-balances", "reference-block"}).Draw(t, "queue")
				sq := consensustypes.Queue(sub, "evm", c09Chain)
				ms, _ := c.App.ConsensusKeeper.GetMessagesFromQueue(c.ReadCtx(), sq, 0)
				if len(ms) == 0 {
					t.Skip("empty queue")
				}
				m := ms[rapid.IntRange(0, len(ms)-1).Draw(t, "msg")]
				var proof *codectypes.Any
				var desc string
				if rapid.IntRange(0, 3).Draw(t, "crossType") == 0 {
					sub = map[string]string{"validators-balances": "reference-block", "reference-block": "validators-balances"}[sub]
				}
				if sub == "validators-balances" {
					k := rapid.SampledFrom([]int{0, 1, n - 1, n, n + 3}).Draw(t, "nBalances")
					bal := make([]string, k)
					for i := range bal {
						bal[i] = rapid.SampledFrom([]string{"1000000000000000000", "0", "", "abc", "-5", "1e30", "115792089237316195423570985008687907853269984665640564039457584007913129639936" + strings.Repeat("0", 100)}).Draw(t, "balance")
					}
					proof, _ = codectypes.NewAnyWithValue(&evmtypes.ValidatorBalancesAttestationRes{BlockHeight: rapid.SampledFrom([]uint64{0, 1, 1<<64 - 1}).Draw(t, "height"), Balances: bal})
					desc = fmt.Sprintf("balances%v", bal)
					if len(desc) > 120 {
						desc = desc[:120] + "..."
					}
				} else {
					hash := rapid.SampledFrom([]string{"0x" + strings.Repeat("ab", 32), "", "zz", strings.Repeat("f", 5000)}).Draw(t, "blockHash")
					height := rapid.SampledFrom([]uint64{0, 1, 1 << 63, 1<<64 - 1}).Draw(t, "height")
					proof, _ = codectypes.NewAnyWithValue(&evmtypes.ReferenceBlockAttestationRes{BlockHeight: height, BlockHash: hash})
					desc = fmt.Sprintf("refBlock(%d,%d-byte hash)", height, len(hash))
				}
				var txs [][]byte
				for _, v := range c.Vals {
					txs = append(txs, c.MustSign(v.Actor, &consensustypes.MsgAddEvidence{Metadata: chain.MD(v.Actor), Proof: proof, MessageID: m.GetId(), QueueTypeName: sq}))
				}
				oks := block(t, "stateEvidence", txs...)
				log = append(log, fmt.Sprintf("h%d:stateEvidence(%s msg %d,%s)=%v", c.H-1, sq, m.GetId(), desc, oks))
				hostile(oks[0])
			},
			"bridgeSend": func(t *rapid.T) {
				amt := rapid.SampledFrom([]string{"1", "1000", "57896044618658097711785492504343953926634992332820282019728792003956564819967", "28948022309329048855892746252171976963317496166410141009864396001978282409984"}).Draw(t, "amount")
				a, _ := sdkmath.NewIntFromString(amt)
				oks := block(t, "bridgeSend", c.MustSign(ub, &skywaytypes.MsgSendToRemote{Metadata: chain.MD(ub), EthDest: "0x00000000000000000000000000000000000000d1", Amount: sdk.NewCoin(tok.Denom, a), ChainReferenceId: c09Chain}))
				log = append(log, fmt.Sprintf("h%d:send(%s)=%v", c.H-1, amt, oks[0]))
				hostile(oks[0] && len(amt) > 10)
			},
			"depositClaim": func(t *rapid.T) {
				amt := rapid.SampledFrom([]string{"5", "115792089237316195423570985008687907853269984665640564039457584007913129639935", "57896044618658097711785492504343953926634992332820282019728792003956564819968"}).Draw(t, "amount")
				a, _ := sdkmath.NewIntFromString(amt)
				recv := rapid.SampledFrom([]string{ub.Addr.String(), "", "\x00\xff", strings.Repeat("r", 3000)}).Draw(t, "receiver")
				skyNonce++
				var txs [][]byte
				for _, v := range c.Vals {
					txs = append(txs, c.MustSign(v.Actor, &skywaytypes.MsgSendToPalomaClaim{Metadata: chain.MD(v.Actor), Orchestrator: v.Addr.String(), EventNonce: skyNonce, SkywayNonce: skyNonce, EthBlockHeight: 100 + skyNonce, TokenContract: c09ERC20, Amount: a,
						EthereumSender: "0x00000000000000000000000000000000000000b1", PalomaReceiver: recv, ChainReferenceId: c09Chain, CompassId: "compass-1"}))
				}
				oks := block(t, "depositClaim", txs...)
				if !oks[0] {
					skyNonce--
				}
				log = append(log, fmt.Sprintf("h%d:deposit(%s,recv %d bytes)=%v", c.H-1, amt, len(recv), oks[0]))
				hostile(oks[0] && len(amt) > 10)
			},
			"batchEstimates": func(t *rapid.T) {
				bs, _ := c.App.SkywayKeeper.GetOutgoingTxBatches(c.ReadCtx())
				if len(bs) == 0 {
					t.Skip("no batch")
				}
				var txs [][]byte
				g := rapid.SampledFrom([]uint64{1, 1 << 63, 1<<64 - 1}).Draw(t, "gas")
				for _, v := range c.Vals {
					txs = append(txs, c.MustSign(v.Actor, &skywaytypes.MsgEstimateBatchGas{Metadata: chain.MD(v.Actor), Nonce: bs[0].BatchNonce, TokenContract: c09ERC20, EthSigner: chain.EthAddr(v.EthKeys[c09Chain]).Hex(), Estimate: g}))
				}
				oks := block(t, "batchEstimates", txs...)
				log = append(log, fmt.Sprintf("h%d:batchEstimates(%d)=%v", c.H-1, g, oks[0]))
				hostile(oks[0])
			},
			"statusUpdate": func(t *rapid.T) {
				v := c.Vals[rapid.IntRange(0, n-1).Draw(t, "val")]
				lvl := palomatypes.MsgAddStatusUpdate_Level(rapid.IntRange(0, 5).Draw(t, "level"))
				oks := block(t, "statusUpdate", c.MustSign(v.Actor, &palomatypes.MsgAddStatusUpdate{Metadata: chain.MD(v.Actor), Status: "s", Level: lvl}))
				log = append(log, fmt.Sprintf("h%d:status(level %d)=%v", c.H-1, lvl, oks[0]))
			},
			"relayerVersionProposal": versionProposal,
			"govSettings": func(t *rapid.T) {
				var err error
				what := rapid.SampledFrom([]string{"relayWeights", "bridgeTax", "transferLimit", "minBalance"}).Draw(t, "what")
				switch what {
				case "relayWeights":
					w := rapid.SampledFrom([]string{"0.5", "-1", "abc", "", "1e400", "999999999999999999999999999"}).Draw(t, "w")
					err = c09GovContent(c, &evmtypes.RelayWeightsProposal{Title: "t", Description: "d", ChainReferenceID: c09Chain, Fee: w, Uptime: w, SuccessRate: "0.5", ExecutionTime: "0.5", FeatureSet: w}, evm.NewReferenceChainReferenceIDProposalHandler(c.App.EvmKeeper))
				case "bridgeTax":
					r := rapid.SampledFrom([]string{"0.1", "1e30", "999999999999999999999999999999/1", "1/0", "-1", "abc"}).Draw(t, "rate")
					err = c09GovContent(c, &skywaytypes.SetBridgeTaxProposal{Title: "t", Description: "d", Token: tok.Denom, Rate: r}, skywaykeeper.NewSkywayProposalHandler(c.App.SkywayKeeper))
				case "transferLimit":
					l, _ := sdkmath.NewIntFromString(rapid.SampledFrom([]string{"0", "1", "115792089237316195423570985008687907853269984665640564039457584007913129639935"}).Draw(t, "limit"))
					err = c09GovContent(c, &skywaytypes.SetBridgeTransferLimitProposal{Title: "t", Description: "d", Token: tok.Denom, Limit: l, LimitPeriod: skywaytypes.LimitPeriod(rapid.IntRange(0, 6).Draw(t, "period"))}, skywaykeeper.NewSkywayProposalHandler(c.App.SkywayKeeper))
				case "minBalance":
					err = c09GovContent(c, &evmtypes.ChangeMinOnChainBalanceProposal{Title: "t", Description: "d", ChainReferenceID: c09Chain, MinOnChainBalance: rapid.SampledFrom([]string{"0", "abc", "-5", "99999999999999999999999999999999999999999"}).Draw(t, "bal")}, evm.NewReferenceChainReferenceIDProposalHandler(c.App.EvmKeeper))
				}
				log = append(log, fmt.Sprintf("h%d:gov(%s)=%v", c.H, what, err == nil))
				hostile(err == nil)
			},
			// Fixture standing for a long history: the global message id counter moves ahead by 1000..5000, as it does when
			// that many messages were queued and have since been attested or pruned (ids are only ever compared, e.g.
			// by the metrics scoring window of 1000 messages).
			// A delivery attempt that never reaches consensus: the assignee reports an error, ONE validator supplies evidence.
			// With leaveSet (that validator unbonds) and advance300 the message is later pruned with evidence only from
			// validators that are no longer in the snapshot.
			"partialEvidence": func(t *rapid.T) {
				ms, _ := c.App.ConsensusKeeper.GetMessagesFromQueue(c.ReadCtx(), q, 0)
				if len(ms) == 0 {
					t.Skip("empty queue")
				}
				m := ms[rapid.IntRange(0, len(ms)-1).Draw(t, "msg")]
				cm, err := m.ConsensusMsg(c.App.AppCodec())
				if err != nil {
					t.Skip("undecodable")
				}
				var assignee *chain.Validator
				for _, v := range c.Vals {
					if v.Val().String() == cm.(*evmtypes.Message).Assignee {
						assignee = v
					}
				}
				if assignee == nil {
					t.Skip("no assignee")
				}
				w := c.Vals[rapid.IntRange(0, n-1).Draw(t, "witness")]
				proof, _ := codectypes.NewAnyWithValue(&evmtypes.SmartContractExecutionErrorProof{ErrorMessage: "reverted"})
				oks := block(t, "partialEvidence",
					c.MustSign(assignee.Actor, &consensustypes.MsgSetErrorData{Metadata: chain.MD(assignee.Actor), MessageID: m.GetId(), QueueTypeName: q, Data: []byte("reverted")}),
					c.MustSign(w.Actor, &consensustypes.MsgAddEvidence{Metadata: chain.MD(w.Actor), Proof: proof, MessageID: m.GetId(), QueueTypeName: q}))
				log = append(log, fmt.Sprintf("h%d:partialEvidence(msg %d,witness v%d)=%v", c.H-1, m.GetId(), w.Index, oks))
				if oks[1] {
					witnesses = append(witnesses, w)
				}
			},
			"leaveSet": func(t *rapid.T) {
				if left || n < 4 {
					t.Skip("not now")
				}
				v := c.Vals[rapid.IntRange(0, n-1).Draw(t, "val")]
				if len(witnesses) > 0 && rapid.IntRange(0, 3).Draw(t, "aWitness") > 0 {
					v = witnesses[len(witnesses)-1]
				}
				oks := block(t, "leaveSet", c.MustSign(v.Actor, stakingtypes.NewMsgUndelegate(v.Addr.String(), v.Val().String(), sdk.NewCoin(chain.BondDenom, v.Stake))))
				left = left || oks[0]
				log = append(log, fmt.Sprintf("h%d:leaveSet(v%d)=%v", c.H-1, v.Index, oks[0]))
			},
			"advance300": func(t *rapid.T) {
				if longAdvance {
					t.Skip("once")
				}
				longAdvance = true
				// usually the latest witness leaves the validator set first (so that it is out of the snapshot when the
				// message is pruned)
				if len(witnesses) > 0 && !left && n >= 4 && rapid.IntRange(0, 3).Draw(t, "witnessLeavesFirst") > 0 {
					v := witnesses[len(witnesses)-1]
					oks := block(t, "leaveSet", c.MustSign(v.Actor, stakingtypes.NewMsgUndelegate(v.Addr.String(), v.Val().String(), sdk.NewCoin(chain.BondDenom, v.Stake))))
					left = left || oks[0]
					log = append(log, fmt.Sprintf("h%d:leaveSet(v%d)=%v", c.H-1, v.Index, oks[0]))
				}
				for i := 0; i < 300; i++ {
					block(t, "advance300")
				}
				for c.H%50 != 2 { // past the next pruning height
					block(t, "advance300")
				}
				log = append(log, fmt.Sprintf("advance(300+)->h%d", c.H))
			},
			"skipMessageIds": func(t *rapid.T) {
				if idSkips >= 2 {
					t.Skip("enough")
				}
				skipIds(t)
			},
			"advance": func(t *rapid.T) {
				k := rapid.SampledFrom([]int{1, 2, 6, 12, 55}).Draw(t, "blocks")
				for i := 0; i < k; i++ {
					block(t, "advance")
				}
				log = append(log, fmt.Sprintf("advance(%d)->h%d", k, c.H))
			},
		})
		// run past the next multiple of 10 and two more blocks
		for c.H%10 != 3 {
			block(t, "final advance")
		}
		nt := hostileAccepted > 0 && crossedHousekeeping
		evid.Case(t.Name(), fmt.Sprintf("start=%d %s", base, strings.Join(log, " ")), nt, []string{fmt.Sprintf("hostileAccepted=%d", min(hostileAccepted, 8)), fmt.Sprintf("start=%d", base), fmt.Sprintf("idSkips=%d", idSkips), fmt.Sprintf("scheduledRelayerVersions=%d", min(scheduledVersions, 3)), fmt.Sprintf("prunedAfterWitnessLeft=%v", left && longAdvance && len(witnesses) > 0)}, func() any { return log })
	})
}

// Removing a chain whose consensus queue is not empty must terminate. Non-termination has no other observable than
// time, so the scenario runs in a child process under a wall-clock limit; this is the one place where a timeout is a
// verdict.
func TestC09_RemoveChainWithQueuedMessagesTerminates(t *testing.T) {
	if os.Getenv("VERIF_C09_CHILD") == "1" {
		c09RemoveChainChild(t)
		return
	}
	evid.Check(t, 3, 12, func(t *rapid.T) {
		nmsgs := rapid.IntRange(1, 4).Draw(t, "queuedMessages")
		ctx, cancel := context.WithTimeout(context.Background(), 90*time.Second)
		defer cancel()
		cmd := exec.CommandContext(ctx, os.Args[0], "-test.run", "^TestC09_RemoveChainWithQueuedMessagesTerminates$", "-test.timeout", "80s")
		cmd.Env = append(os.Environ(), "VERIF_C09_CHILD=1", fmt.Sprintf("VERIF_C09_MSGS=%d", nmsgs), "VERIF_EVID_OUT=", "GOMEMLIMIT=2GiB")
		out, err := cmd.CombinedOutput()
		if ctx.Err() != nil || err != nil {
			tail := string(out)
			if len(tail) > 1500 {
				tail = tail[len(tail)-1500:]
			}
			t.Fatalf("removing a chain with %d queued message(s) did not complete (ctx: %v, err: %v): %s", nmsgs, ctx.Err(), err, tail)
		}
		if !strings.Contains(string(out), "C09-CHILD-OK") {
			t.Fatalf("child did not report success: %s", out)
		}
		evid.Case(t.Name(), fmt.Sprintf("msgs=%d", nmsgs), true, nil, func() any { return map[string]any{"queuedMessages": nmsgs, "result": "removed, blocks continue"} })
	})
}

func c09RemoveChainChild(t *testing.T) {
	nmsgs := 1
	fmt.Sscanf(os.Getenv("VERIF_C09_MSGS"), "%d", &nmsgs)
	c, err := chain.New(chain.Options{Salt: "c09-child", Stakes: []int64{100_000_000, 100_000_000, 100_000_000}, Users: []string{"ub"}, EvmChains: []chain.EvmChain{{RefID: c09Chain, ChainID: 1}, {RefID: "bnb-main", ChainID: 56}}})
	if err != nil {
		t.Fatalf("boot: %v", err)
	}
	defer c.Close()
	if err := c.Ready(); err != nil {
		t.Fatalf("ready: %v", err)
	}
	ub := c.Users["ub"]
	def, _ := json.Marshal(evmtypes.JobDefinition{ABI: "[]", Address: "0x00000000000000000000000000000000000000aa"})
	pl, _ := json.Marshal(evmtypes.JobPayload{HexPayload: "0xdeadbeef"})
	c.MustBlock(c.MustSign(ub, &schedtypes.MsgCreateJob{Metadata: chain.MD(ub), Job: &schedtypes.Job{ID: "j1", Routing: schedtypes.Routing{ChainType: "evm", ChainReferenceID: c09Chain}, Definition: def, Payload: pl}}))
	for i := 0; i < nmsgs; i++ {
		c.MustBlock(c.MustSign(ub, &schedtypes.MsgExecuteJob{Metadata: chain.MD(ub), JobID: "j1"}))
	}
	ms, _ := c.App.ConsensusKeeper.GetMessagesFromQueue(c.ReadCtx(), chain.TurnstoneQueue(c09Chain), 0)
	if len(ms) < nmsgs {
		t.Fatalf("expected %d queued messages, have %d", nmsgs, len(ms))
	}
	if err := c09GovContent(c, &evmtypes.RemoveChainProposal{Title: "t", Description: "d", ChainReferenceID: c09Chain}, evm.NewReferenceChainReferenceIDProposalHandler(c.App.EvmKeeper)); err != nil {
		t.Fatalf("remove chain proposal failed: %v", err)
	}
	for i := 0; i < 12; i++ {
		if _, err := c.Block(); err != nil {
			t.Fatalf("block after chain removal: %v", err)
		}
	}
	fmt.Println("C09-CHILD-OK", hex.EncodeToString([]byte{1}))
}
