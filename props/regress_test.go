package props

// Plain (non-rapid) regressions of the shrunk failures found on the pinned tree. Each rebuilds the minimal history
// by hand and fails if the defect repaired by the named "fix:" commit ever returns. They run in both tiers as part of
// the property's test set (name prefix TestCNN_Regress_).

import (
	"encoding/hex"
	"encoding/json"
	"os"
	"strings"
	"testing"

	sdkmath "cosmossdk.io/math"
	sdk "github.com/cosmos/cosmos-sdk/types"
	"github.com/cosmos/cosmos-sdk/x/authz"
	stakingtypes "github.com/cosmos/cosmos-sdk/x/staking/types"

	consensustypes "github.com/palomachain/paloma/v2/x/consensus/types"
	evmtypes "github.com/palomachain/paloma/v2/x/evm/types"
	palomatypes "github.com/palomachain/paloma/v2/x/paloma/types"
	schedtypes "github.com/palomachain/paloma/v2/x/scheduler/types"
	skywaytypes "github.com/palomachain/paloma/v2/x/skyway/types"
	treasurytypes "github.com/palomachain/paloma/v2/x/treasury/types"
	vtypes "github.com/palomachain/paloma/v2/x/valset/types"

	"verif/harness/chain"
)

func regChain(t *testing.T, salt string, stakes []int64, start int64, users ...string) *chain.Chain {
	t.Helper()
	c, err := chain.New(chain.Options{Salt: salt, Stakes: stakes, InitialHeight: start, Users: users, EvmChains: []chain.EvmChain{{RefID: "eth-main", ChainID: 1}}})
	if err != nil {
		t.Fatalf("boot: %v", err)
	}
	t.Cleanup(c.Close)
	if err := c.Ready(); err != nil {
		t.Fatalf("ready: %v", err)
	}
	return c
}

func regBlock(t *testing.T, c *chain.Chain, txs ...[]byte) []bool {
	t.Helper()
	res, err := c.Block(txs...)
	if err != nil {
		t.Fatalf("block: %v", err)
	}
	oks := make([]bool, len(txs))
	for i := range txs {
		oks[i] = res.TxResults[i].Code == 0
	}
	return oks
}

func regDeposit(v *chain.Validator, nonce uint64, amount int64, receiver string) sdk.Msg {
	return &skywaytypes.MsgSendToPalomaClaim{Metadata: chain.MD(v.Actor), Orchestrator: v.Addr.String(), EventNonce: nonce, SkywayNonce: nonce, EthBlockHeight: 1000 + nonce, TokenContract: "0x00000000000000000000000000000000000000E1",
		Amount: sdkmath.NewInt(amount), EthereumSender: "0x00000000000000000000000000000000000000b1", PalomaReceiver: receiver, ChainReferenceId: "eth-main", CompassId: "compass-1"}
}

// fixed by 3e08accf: vote, governance override to 0, same vote again -> the validator's power counted twice.
func TestC02_Regress_DuplicateVoteAfterNonceReset(t *testing.T) {
	c := regChain(t, "reg-c02", []int64{100_000_000, 100_000_000, 100_000_000}, 1, "alice", "bob")
	alice, bob := c.Users["alice"], c.Users["bob"]
	if _, err := c.SetupToken(alice, "tok", sdkmath.NewInt(1000), "eth-main", "0x00000000000000000000000000000000000000E1"); err != nil {
		t.Fatal(err)
	}
	v1 := c.Vals[1]
	regBlock(t, c, c.MustSign(alice, stakingtypes.NewMsgDelegate(alice.Addr.String(), v1.Val().String(), sdk.NewCoin(chain.BondDenom, sdkmath.NewInt(51_000_000))))) // 151 of 351
	regBlock(t, c, c.MustSign(v1.Actor, regDeposit(v1, 1, 101, bob.Addr.String())))
	if err := c.Gov(&skywaytypes.MsgNonceOverrideProposal{Metadata: chain.GovMD(), ChainReferenceId: "eth-main", Nonce: 0}); err != nil {
		t.Fatal(err)
	}
	regBlock(t, c, c.MustSign(v1.Actor, regDeposit(v1, 1, 101, bob.Addr.String())))
	regBlock(t, c)
	atts, err := c.Attestations("eth-main")
	if err != nil {
		t.Fatal(err)
	}
	for _, a := range atts {
		if a.Observed {
			t.Fatalf("claim observed on the vote of one validator holding 151 of 351 power; votes %v", a.Votes)
		}
		seen := map[string]bool{}
		for _, v := range a.Votes {
			if seen[v] {
				t.Fatalf("validator %s listed twice in the vote list %v", v, a.Votes)
			}
			seen[v] = true
		}
	}
}

// fixed by 01800575 / a2f8db0d / 1dc43c47: the three impersonation routes.
func TestC03_Regress_ImpersonationRoutes(t *testing.T) {
	c := regChain(t, "reg-c03", []int64{100_000_000, 100_000_000, 100_000_000}, 1, "mallory")
	mal := c.Users["mallory"]
	victim := c.Vals[1]
	kaBefore, _ := c.App.ValsetKeeper.ValidatorKeepAliveData(c.ReadCtx(), victim.Val())
	ka := &vtypes.MsgKeepAlive{Metadata: vtypes.MsgMetadata{Creator: victim.Addr.String(), Signers: []string{mal.Addr.String()}}, PigeonVersion: "v9.9.9"}
	exec := authz.NewMsgExec(mal.Addr, []sdk.Msg{ka})
	if regBlock(t, c, c.MustSign(mal, &exec))[0] {
		t.Fatalf("authz.MsgExec wrapping a keep-alive in the victim's name was accepted")
	}
	kaAfter, _ := c.App.ValsetKeeper.ValidatorKeepAliveData(c.ReadCtx(), victim.Val())
	if kaAfter.PigeonVersion != kaBefore.PigeonVersion {
		t.Fatalf("victim's keep-alive changed by a transaction of another account")
	}
	claim := regDeposit(victim, 1, 5, mal.Addr.String()).(*skywaytypes.MsgSendToPalomaClaim)
	claim.Metadata = chain.MD(mal)
	if regBlock(t, c, c.MustSign(mal, claim))[0] {
		t.Fatalf("bridge claim with orchestrator = victim sent by another account was accepted")
	}
	fee := &treasurytypes.MsgUpsertRelayerFee{Metadata: chain.MD(mal), FeeSetting: &treasurytypes.RelayerFeeSetting{ValAddress: victim.Val().String(), Fees: []treasurytypes.RelayerFeeSetting_FeeSetting{{ChainReferenceId: "eth-main", Multiplicator: sdkmath.LegacyMustNewDecFromStr("9")}}}}
	if regBlock(t, c, c.MustSign(mal, fee))[0] {
		t.Fatalf("relayer fee of the victim validator set by another account")
	}
}

// fixed by 11f8d556
func TestC11_Regress_ClaimIdentity(t *testing.T) {
	a := &skywaytypes.MsgLightNodeSaleClaim{SkywayNonce: 1, EventNonce: 1, EthBlockHeight: 7, ClientAddress: "paloma1xyz", Amount: sdkmath.NewInt(3), SmartContractAddress: "0x00000000000000000000000000000000000000f7", CompassId: "c", ChainReferenceId: "eth-main"}
	b := *a
	b.SmartContractAddress = "0x00000000000000000000000000000000000000f8"
	if c11Identity(a) == c11Identity(&b) {
		t.Fatalf("sale claims from different originating contracts share a tally identity")
	}
	d1 := &skywaytypes.MsgSendToPalomaClaim{SkywayNonce: 1, EventNonce: 1, EthBlockHeight: 7, TokenContract: "0x00000000000000000000000000000000000000E1", Amount: sdkmath.NewInt(3), EthereumSender: "0x00000000000000000000000000000000000000b1", PalomaReceiver: "p/q", CompassId: "c", ChainReferenceId: "eth-main", Orchestrator: chain.MkActor("o").Addr.String(), Metadata: chain.MD(chain.MkActor("o"))}
	d2 := *d1
	d2.PalomaReceiver, d2.CompassId = "p", "q/c"
	if c11Identity(d1) == c11Identity(&d2) && d1.ValidateBasic() == nil && d2.ValidateBasic() == nil {
		t.Fatalf("deposit claims (receiver p/q, compass c) and (receiver p, compass q/c) are both acceptable and share a tally identity")
	}
}

// fixed by fad7c267: estimate elected, validator confirms, confirmation replayed as evidence.
func TestC13_Regress_ReplayedConfirmationAfterEstimate(t *testing.T) {
	c := regChain(t, "reg-c13", []int64{100_000_000, 100_000_000, 100_000_000, 100_000_000}, 44, "ub", "mallory")
	ub, mal := c.Users["ub"], c.Users["mallory"]
	tok, err := c.SetupToken(ub, "tok", sdkmath.NewInt(1_000_000), "eth-main", "0x00000000000000000000000000000000000000E1")
	if err != nil {
		t.Fatal(err)
	}
	regBlock(t, c, c.MustSign(ub, &skywaytypes.MsgSendToRemote{Metadata: chain.MD(ub), EthDest: "0x00000000000000000000000000000000000000d1", Amount: sdk.NewCoin(tok.Denom, sdkmath.NewInt(1)), ChainReferenceId: "eth-main"}))
	if err := c.AdvanceTo(51); err != nil {
		t.Fatal(err)
	}
	bs, _ := c.App.SkywayKeeper.GetOutgoingTxBatches(c.ReadCtx())
	if len(bs) != 1 {
		t.Fatalf("expected one batch, have %d", len(bs))
	}
	var txs [][]byte
	for _, v := range c.Vals {
		txs = append(txs, c.MustSign(v.Actor, &skywaytypes.MsgEstimateBatchGas{Metadata: chain.MD(v.Actor), Nonce: bs[0].BatchNonce, TokenContract: "0x00000000000000000000000000000000000000E1", EthSigner: chain.EthAddr(v.EthKeys["eth-main"]).Hex(), Estimate: 50000}))
	}
	regBlock(t, c, txs...)
	regBlock(t, c)
	bs, _ = c.App.SkywayKeeper.GetOutgoingTxBatches(c.ReadCtx())
	if bs[0].GasEstimate == 0 {
		t.Fatalf("estimate not elected")
	}
	v2 := c.Vals[2]
	sig := chain.EthSign(v2.EthKeys["eth-main"], bs[0].BytesToSign)
	if !regBlock(t, c, c.MustSign(v2.Actor, &skywaytypes.MsgConfirmBatch{Metadata: chain.MD(v2.Actor), Nonce: bs[0].BatchNonce, TokenContract: "0x00000000000000000000000000000000000000E1", EthSigner: chain.EthAddr(v2.EthKeys["eth-main"]).Hex(), Orchestrator: v2.Addr.String(), Signature: hex.EncodeToString(sig)}))[0] {
		t.Fatalf("genuine confirmation rejected")
	}
	subj := bs[0].ToExternal()
	any, _ := codecAny(&subj)
	regBlock(t, c, c.MustSign(mal, &skywaytypes.MsgSubmitBadSignatureEvidence{Metadata: chain.MD(mal), Sender: mal.Addr.String(), Subject: any, Signature: hex.EncodeToString(sig), ChainReferenceId: "eth-main"}))
	if c13Jailed(c)[2] {
		t.Fatalf("validator jailed for confirming the checkpoint the chain re-issued after the estimate election")
	}
}

// fixed by 4b97cd07 and f01d97ce
func TestC09_Regress_NegativeMultiplicatorAndC08StatusLevel(t *testing.T) {
	c := regChain(t, "reg-c09", []int64{100_000_000, 100_000_000, 100_000_000}, 1, "ub")
	ub := c.Users["ub"]
	def, _ := json.Marshal(evmtypes.JobDefinition{ABI: "[]", Address: "0x00000000000000000000000000000000000000aa"})
	pl, _ := json.Marshal(evmtypes.JobPayload{HexPayload: "0xdeadbeef"})
	regBlock(t, c, c.MustSign(ub, &schedtypes.MsgCreateJob{Metadata: chain.MD(ub), Job: &schedtypes.Job{ID: "j1", Routing: schedtypes.Routing{ChainType: "evm", ChainReferenceID: "eth-main"}, Definition: def, Payload: pl}}))
	var txs [][]byte
	for _, v := range c.Vals {
		txs = append(txs, c.MustSign(v.Actor, &treasurytypes.MsgUpsertRelayerFee{Metadata: chain.MD(v.Actor), FeeSetting: &treasurytypes.RelayerFeeSetting{ValAddress: v.Val().String(), Fees: []treasurytypes.RelayerFeeSetting_FeeSetting{{ChainReferenceId: "eth-main", Multiplicator: sdkmath.LegacyMustNewDecFromStr("-0.000000000000000001")}}}}))
	}
	regBlock(t, c, txs...)
	regBlock(t, c, c.MustSign(ub, &schedtypes.MsgExecuteJob{Metadata: chain.MD(ub), JobID: "j1"}))
	q := chain.TurnstoneQueue("eth-main")
	ms, _ := c.App.ConsensusKeeper.GetMessagesFromQueue(c.ReadCtx(), q, 0)
	txs = nil
	for _, m := range ms {
		if !m.GetRequireGasEstimation() {
			continue
		}
		for _, v := range c.Vals {
			txs = append(txs, c.MustSign(v.Actor, &consensustypes.MsgAddMessageGasEstimates{Metadata: chain.MD(v.Actor), Estimates: []*consensustypes.MsgAddMessageGasEstimates_GasEstimate{{MsgId: m.GetId(), QueueTypeName: q, Value: 30000, EstimatedByAddress: chain.EthAddr(v.EthKeys["eth-main"]).Hex()}}}))
		}
		break
	}
	regBlock(t, c, txs...) // must not abort
	regBlock(t, c)

	// C08: the same status update succeeds with and without the environment flag
	for _, set := range []bool{false, true} {
		if set {
			os.Setenv(c08EnvFlag, "1")
		}
		v := c.Vals[0]
		ok := regBlock(t, c, c.MustSign(v.Actor, &palomatypes.MsgAddStatusUpdate{Metadata: chain.MD(v.Actor), Status: "s", Level: 5}))[0]
		os.Unsetenv(c08EnvFlag)
		if !ok {
			t.Fatalf("status update with level 5 failed (environment flag set: %v)", set)
		}
	}
}

// fixed by 67ae8f76
func TestC12_Regress_CommaAddressGetsJailed(t *testing.T) {
	seeds := []string{c12Seed("reg-c12/v0", true), c12Seed("reg-c12/v1", false), c12Seed("reg-c12/v2", false), c12Seed("reg-c12/v3", false), c12Seed("reg-c12/v4", false)}
	c, err := chain.New(chain.Options{Salt: "reg-c12", Stakes: []int64{100_000_000, 100_000_000, 100_000_000, 100_000_000, 100_000_000}, ValSeeds: seeds, InitialHeight: 52, EvmChains: []chain.EvmChain{{RefID: "eth-main", ChainID: 1}}})
	if err != nil {
		t.Fatal(err)
	}
	defer c.Close()
	if err := c.Ready(); err != nil {
		t.Fatal(err)
	}
	v0 := c.Vals[0]
	if !strings.Contains(string(v0.Addr), ",") {
		t.Fatalf("seed search failed")
	}
	data := vtypes.KeepAliveData{ValAddr: v0.Val(), ContactedAt: chain.BlockTime(1), AliveUntilBlockHeight: c.H + 5, PigeonVersion: "v2.0.0"}
	bz, _ := json.Marshal(data)
	c.Ctx().KVStore(c.App.GetKey("valset")).Set(append([]byte("keep-alive/"), v0.Val()...), bz)
	if err := c.AdvanceTo(101); err != nil {
		t.Fatal(err)
	}
	if !c13Jailed(c)[0] {
		t.Fatalf("validator whose address contains 0x2c still not jailed %d blocks after its keep-alive expired", c.H-data.AliveUntilBlockHeight)
	}
}
