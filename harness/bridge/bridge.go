//go:build verif

// Package bridge is the E-bridge engine of DESIGN §2.1: the skyway keeper of a full application with
// fault-injecting bank / EVM collaborator proxies (hook H1), driven through its message server (each message
// inside a cache context written only on success, the baseapp runMsgs contract) and its exported EndBlocker,
// with harness-controlled height and time.
package bridge

import (
	"fmt"
	"time"

	cmtproto "github.com/cometbft/cometbft/proto/tendermint/types"
	sdk "github.com/cosmos/cosmos-sdk/types"

	"github.com/palomachain/paloma/v2/util/libcons"
	"github.com/palomachain/paloma/v2/x/skyway"
	skywaykeeper "github.com/palomachain/paloma/v2/x/skyway/keeper"
	skywaytypes "github.com/palomachain/paloma/v2/x/skyway/types"

	"verif/harness/chain"
)

// Sites at which a fault can be injected.
var Sites = []string{"PickValidatorForMessage", "GetChainInfo", "GetEthAddressByValidator",
	"SendCoinsFromAccountToModule", "SendCoinsFromModuleToAccount", "SendCoinsFromModuleToModule", "BurnCoins", "MintCoins"}

type Bridge struct {
	C   *chain.Chain
	K   skywaykeeper.Keeper
	Srv skywaytypes.MsgServer
	CC  *libcons.ConsensusChecker
	H   int64
	T   time.Time

	armed  map[string]int  // site -> calls left until the fault fires (fires when it reaches 0)
	panics map[string]bool // sites whose fault is a panic inside the collaborator instead of an error value
	Fired  []string        // faults that fired since the last ResetFired
	Calls  map[string]int
}

var ErrInjected = fmt.Errorf("verif: injected collaborator failure")

func New(c *chain.Chain) *Bridge {
	b := &Bridge{C: c, K: c.App.SkywayKeeper, H: c.H, T: chain.BlockTime(c.H), armed: map[string]int{}, Calls: map[string]int{}}
	b.K.VerifInjectFaults(b.hit)
	b.Srv = skywaykeeper.NewMsgServerImpl(b.K)
	b.CC = libcons.New(c.App.ValsetKeeper.GetCurrentSnapshot, c.App.AppCodec())
	return b
}

// Arm makes the k-th call (k>=1) of site from now on fail.
func (b *Bridge) Arm(site string, k int) { b.armed[site] = k }
func (b *Bridge) Disarm()                { b.armed, b.panics = map[string]int{}, map[string]bool{} }

// ArmPanic is Arm with a panic inside the collaborator as the failure (a transaction handler's panic fails the
// transaction; the end blocker recovers panics of its steps).
func (b *Bridge) ArmPanic(site string, k int) {
	b.armed[site] = k
	if b.panics == nil {
		b.panics = map[string]bool{}
	}
	b.panics[site] = true
}
func (b *Bridge) ResetFired() { b.Fired = nil }

func (b *Bridge) hit(site string) error {
	b.Calls[site]++
	if n, ok := b.armed[site]; ok {
		n--
		if n <= 0 {
			delete(b.armed, site)
			b.Fired = append(b.Fired, site)
			if b.panics[site] {
				delete(b.panics, site)
				panic(fmt.Sprintf("verif: injected collaborator panic at %s", site))
			}
			return fmt.Errorf("%w at %s", ErrInjected, site)
		}
		b.armed[site] = n
	}
	return nil
}

// Ctx is the uncached context at the harness-controlled height and time.
func (b *Bridge) Ctx() sdk.Context {
	return b.C.App.NewUncachedContext(false, cmtproto.Header{ChainID: chain.ChainID, Height: b.H, Time: b.T})
}

// Tx runs one skyway message through the message server inside a cache context that is written only on success.
func (b *Bridge) Tx(msg sdk.Msg) (err error) {
	defer func() {
		if r := recover(); r != nil {
			err = fmt.Errorf("panic in handler (tx fails): %v", r)
		}
	}()
	if vb, ok := msg.(sdk.HasValidateBasic); ok {
		if err := vb.ValidateBasic(); err != nil {
			return err
		}
	}
	cctx, write := b.Ctx().CacheContext()
	switch m := msg.(type) {
	case *skywaytypes.MsgSendToRemote:
		_, err = b.Srv.SendToRemote(cctx, m)
	case *skywaytypes.MsgCancelSendToRemote:
		_, err = b.Srv.CancelSendToRemote(cctx, m)
	case *skywaytypes.MsgEstimateBatchGas:
		_, err = b.Srv.EstimateBatchGas(cctx, m)
	case *skywaytypes.MsgConfirmBatch:
		_, err = b.Srv.ConfirmBatch(cctx, m)
	case *skywaytypes.MsgSendToPalomaClaim:
		_, err = b.Srv.SendToPalomaClaim(cctx, m)
	case *skywaytypes.MsgBatchSendToRemoteClaim:
		_, err = b.Srv.BatchSendToRemoteClaim(cctx, m)
	default:
		return fmt.Errorf("bridge.Tx: unsupported message %T", msg)
	}
	if err == nil {
		write()
	}
	return err
}

// EndBlock runs the skyway end-blocker as the module manager does (directly on the block's context) and then
// moves to the next height (+6 s).
func (b *Bridge) EndBlock() {
	skyway.EndBlocker(b.Ctx(), b.K, b.CC)
	b.H++
	b.T = b.T.Add(6 * time.Second)
}

// JumpTo moves the clock to height h without running end-blockers for the skipped heights (nothing in skyway
// depends on them except the multiples of 50, which callers step through explicitly).
func (b *Bridge) JumpTo(h int64) {
	if h > b.H {
		b.T = b.T.Add(time.Duration(h-b.H) * 6 * time.Second)
		b.H = h
	}
}

func (b *Bridge) PassTime(d time.Duration) { b.T = b.T.Add(d) }
