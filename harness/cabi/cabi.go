// Package cabi is the harness's own encoder of compass (bridge contract) call data, built directly on
// go-ethereum's ABI packer and the compass ABI JSON. It deliberately does not use any helper of x/evm/types.
package cabi

import (
	"math/big"
	"strings"

	"github.com/ethereum/go-ethereum/accounts/abi"
	"github.com/ethereum/go-ethereum/common"
	"github.com/ethereum/go-ethereum/crypto"

	"verif/harness/chain"
)

var Compass = func() abi.ABI {
	a, err := abi.JSON(strings.NewReader(chain.CompassABI))
	if err != nil {
		panic(err)
	}
	return a
}()

type Sig struct {
	V *big.Int
	R *big.Int
	S *big.Int
}

type Valset struct {
	Validators []common.Address
	Powers     []*big.Int
	ValsetId   *big.Int
}

type Consensus struct {
	Valset     Valset
	Signatures []Sig
}

type LogicCallArgs struct {
	LogicContractAddress common.Address
	Payload              []byte
}

type FeeArgs struct {
	RelayerFee            *big.Int
	CommunityFee          *big.Int
	SecurityFee           *big.Int
	FeePayerPalomaAddress [32]byte
}

type BatchArgs struct {
	Receiver []common.Address
	Amount   []*big.Int
}

// EmptyConsensus is the constant signature block used when only the delivered values matter.
func EmptyConsensus() Consensus {
	return Consensus{Valset: Valset{Validators: []common.Address{}, Powers: []*big.Int{}, ValsetId: big.NewInt(0)}, Signatures: []Sig{}}
}

func LeftPad32(b []byte) [32]byte {
	var out [32]byte
	if len(b) > 32 {
		b = b[len(b)-32:]
	}
	copy(out[32-len(b):], b)
	return out
}

func U(x uint64) *big.Int { return new(big.Int).SetUint64(x) }
func I(x int64) *big.Int  { return big.NewInt(x) }

func SubmitLogicCall(cons Consensus, contract common.Address, payload []byte, fees FeeArgs, msgID, deadline *big.Int, relayer common.Address) ([]byte, error) {
	return Compass.Pack("submit_logic_call", cons, LogicCallArgs{contract, payload}, fees, msgID, deadline, relayer)
}

func UpdateValset(cons Consensus, vs Valset, relayer common.Address, gas *big.Int) ([]byte, error) {
	return Compass.Pack("update_valset", cons, vs, relayer, gas)
}

func DeployContract(cons Consensus, deployer common.Address, bytecode []byte, fees FeeArgs, msgID, deadline *big.Int, relayer common.Address) ([]byte, error) {
	return Compass.Pack("deploy_contract", cons, deployer, bytecode, fees, msgID, deadline, relayer)
}

func CompassUpdateBatch(cons Consensus, calls []LogicCallArgs, deadline, gas *big.Int, relayer common.Address) ([]byte, error) {
	return Compass.Pack("compass_update_batch", cons, calls, deadline, gas, relayer)
}

func SubmitBatch(cons Consensus, token common.Address, args BatchArgs, batchID, deadline *big.Int, relayer common.Address, gas *big.Int) ([]byte, error) {
	return Compass.Pack("submit_batch", cons, token, args, batchID, deadline, relayer, gas)
}

// BatchCheckpoint is the digest compass verifies signatures against for a token batch: keccak256 of the call data of
// batch_call(address,(address[],uint256[]),uint256,bytes32,uint256,address,uint256). Written out from the compass
// contract's definition; gas 0 stands for "no estimate elected yet" (the chain then signs a conservative 300000).
func BatchCheckpoint(token common.Address, args BatchArgs, batchID *big.Int, compassID string, deadline *big.Int, relayer common.Address, gas *big.Int) ([]byte, error) {
	mk := func(t string, comps []abi.ArgumentMarshaling) abi.Type {
		ty, err := abi.NewType(t, "", comps)
		if err != nil {
			panic(err)
		}
		return ty
	}
	arguments := abi.Arguments{
		{Type: mk("address", nil)},
		{Type: mk("tuple", []abi.ArgumentMarshaling{{Name: "receiver", Type: "address[]"}, {Name: "amount", Type: "uint256[]"}})},
		{Type: mk("uint256", nil)},
		{Type: mk("bytes32", nil)},
		{Type: mk("uint256", nil)},
		{Type: mk("address", nil)},
		{Type: mk("uint256", nil)},
	}
	var id [32]byte
	copy(id[:], compassID)
	g := new(big.Int).Set(gas)
	if g.Sign() == 0 {
		g.SetInt64(300000)
	}
	body, err := arguments.Pack(token, args, batchID, id, deadline, relayer, g)
	if err != nil {
		return nil, err
	}
	sel := crypto.Keccak256([]byte("batch_call(address,(address[],uint256[]),uint256,bytes32,uint256,address,uint256)"))[:4]
	return crypto.Keccak256(append(sel, body...)), nil
}
