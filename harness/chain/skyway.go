package chain

import (
	"crypto/ecdsa"
	"fmt"
	ethcrypto "github.com/ethereum/go-ethereum/crypto"

	"cosmossdk.io/math"
	sdk "github.com/cosmos/cosmos-sdk/types"

	skywaytypes "github.com/palomachain/paloma/v2/x/skyway/types"
	tftypes "github.com/palomachain/paloma/v2/x/tokenfactory/types"
)

// Token is a factory denom bridged to an ERC-20 on a remote chain.
type Token struct {
	Denom    string
	ERC20    string
	ChainRef string
	Owner    Actor
}

// SetupToken lets owner create factory denom <sub>, mint `mint` units to itself and binds it to erc20 on chainRef
// through the governance message (fixture).
func (c *Chain) SetupToken(owner Actor, sub string, mint math.Int, chainRef, erc20 string) (Token, error) {
	denom := "factory/" + owner.Addr.String() + "/" + sub
	msgs := []sdk.Msg{tftypes.NewMsgCreateDenom(owner.Addr.String(), sub)}
	if mint.IsPositive() {
		msgs = append(msgs, tftypes.NewMsgMint(owner.Addr.String(), sdk.NewCoin(denom, mint)))
	}
	res, err := c.Block(c.MustSign(owner, msgs...))
	if err != nil {
		return Token{}, err
	}
	if res.TxResults[0].Code != 0 {
		return Token{}, fmt.Errorf("token setup: %s", res.TxResults[0].Log)
	}
	g := GovAddr().String()
	err = c.Gov(&skywaytypes.MsgSetERC20MappingProposal{Metadata: GovMD(), Authority: g,
		Mappings: []skywaytypes.MsgSetERC20MappingProposal_ERC20ToDenomMapping{{ChainReferenceId: chainRef, Erc20: erc20, Denom: denom}}})
	if err != nil {
		return Token{}, fmt.Errorf("mapping: %w", err)
	}
	return Token{Denom: denom, ERC20: erc20, ChainRef: chainRef, Owner: owner}, nil
}

// ObservedAtt is one attestation found in the skyway store.
type AttView struct {
	Key      string
	Observed bool
	Votes    []string
	Claim    skywaytypes.EthereumClaim
}

// Attestations lists every stored attestation of a chain (all compass ids), in store order.
func (c *Chain) Attestations(chainRef string) ([]AttView, error) {
	ctx := c.ReadCtx()
	var out []AttView
	var ierr error
	err := c.App.SkywayKeeper.IterateAttestations(ctx, chainRef, false, func(key []byte, att skywaytypes.Attestation) bool {
		cl, err := c.App.SkywayKeeper.UnpackAttestationClaim(&att)
		if err != nil {
			ierr = err
			return true
		}
		out = append(out, AttView{Key: string(key), Observed: att.Observed, Votes: append([]string(nil), att.Votes...), Claim: cl})
		return false
	})
	if err != nil {
		return nil, err
	}
	return out, ierr
}

// ConsensusPower returns (power of validator as last recorded by staking, total).
func (c *Chain) LastPowers() (map[string]int64, int64, error) {
	ctx := c.ReadCtx()
	out := map[string]int64{}
	for _, v := range c.Vals {
		p, err := c.App.StakingKeeper.GetLastValidatorPower(ctx, v.Val())
		if err != nil {
			return nil, 0, err
		}
		out[v.Val().String()] = p
	}
	tot, err := c.App.StakingKeeper.GetLastTotalPower(ctx)
	if err != nil {
		return nil, 0, err
	}
	return out, tot.Int64(), nil
}

// EthSign signs a 32-byte hash the way compass / pigeon do ("\x19Ethereum Signed Message:\n32" prefix).
func EthSign(key *ecdsa.PrivateKey, hash []byte) []byte {
	protected := ethcrypto.Keccak256(append([]byte("\x19Ethereum Signed Message:\n32"), hash...))
	sig, err := ethcrypto.Sign(protected, key)
	if err != nil {
		panic(err)
	}
	return sig
}

// TurnstoneQueue is the consensus queue name of a remote chain's message queue.
func TurnstoneQueue(chainRef string) string { return "evm/" + chainRef + "/evm-turnstone-message" }
