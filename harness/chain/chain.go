// Package chain is the E-chain engine of DESIGN §2.1: a full Paloma application (real ante chain, real
// message router, real Begin/EndBlockers) over an in-memory DB, driven block by block with signed
// transactions.  Only ONE live *App per process at a time (util/eventbus has package-global
// subscribers): create, use, Close, then create the next.
package chain

import (
	"crypto/ecdsa"
	_ "embed"
	"encoding/json"
	"fmt"
	"math/rand"
	"os"
	"runtime/debug"
	"time"

	"cosmossdk.io/log"
	"cosmossdk.io/math"
	abci "github.com/cometbft/cometbft/abci/types"
	cmtproto "github.com/cometbft/cometbft/proto/tendermint/types"
	cmttypes "github.com/cometbft/cometbft/types"
	dbm "github.com/cosmos/cosmos-db"
	"github.com/cosmos/cosmos-sdk/baseapp"
	codectypes "github.com/cosmos/cosmos-sdk/codec/types"
	"github.com/cosmos/cosmos-sdk/crypto/keys/ed25519"
	"github.com/cosmos/cosmos-sdk/crypto/keys/secp256k1"
	cryptotypes "github.com/cosmos/cosmos-sdk/crypto/types"
	simtestutil "github.com/cosmos/cosmos-sdk/testutil/sims"
	sdk "github.com/cosmos/cosmos-sdk/types"
	"github.com/cosmos/cosmos-sdk/version"
	authtypes "github.com/cosmos/cosmos-sdk/x/auth/types"
	banktypes "github.com/cosmos/cosmos-sdk/x/bank/types"
	govtypes "github.com/cosmos/cosmos-sdk/x/gov/types"
	slashingtypes "github.com/cosmos/cosmos-sdk/x/slashing/types"
	stakingtypes "github.com/cosmos/cosmos-sdk/x/staking/types"
	ethcommon "github.com/ethereum/go-ethereum/common"
	ethcrypto "github.com/ethereum/go-ethereum/crypto"

	palomaapp "github.com/palomachain/paloma/v2/app"
	palomaparams "github.com/palomachain/paloma/v2/app/params"
	evmtypes "github.com/palomachain/paloma/v2/x/evm/types"
	treasurytypes "github.com/palomachain/paloma/v2/x/treasury/types"
	vtypes "github.com/palomachain/paloma/v2/x/valset/types"
)

//go:embed compass-abi.json
var CompassABI string

const (
	ChainID   = "verif-1"
	BondDenom = "ugrain"
	T0        = int64(1700000000)
	BlockSecs = int64(6)
)

// Actor is an account with a key.
type Actor struct {
	Name string
	SK   cryptotypes.PrivKey
	Addr sdk.AccAddress
}

func (a Actor) Val() sdk.ValAddress { return sdk.ValAddress(a.Addr) }
func (a Actor) String() string      { return a.Addr.String() }

// MkActor derives a deterministic account from a seed string.
func MkActor(seed string) Actor {
	sk := secp256k1.GenPrivKeyFromSecret([]byte(seed))
	return Actor{Name: seed, SK: sk, Addr: sdk.AccAddress(sk.PubKey().Address())}
}

// Validator is a staking validator with its consensus key and per-chain ethereum keys.
type Validator struct {
	Actor
	Cons    cryptotypes.PrivKey
	Stake   math.Int
	EthKeys map[string]*ecdsa.PrivateKey
	Index   int
}

// EthKey returns (creating deterministically) the validator's key for a remote chain; gen distinguishes re-registrations.
func EthKeyFor(seed string) *ecdsa.PrivateKey {
	k, err := ethcrypto.ToECDSA(ethcrypto.Keccak256([]byte(seed)))
	if err != nil {
		panic(err)
	}
	return k
}

func EthAddr(k *ecdsa.PrivateKey) ethcommon.Address { return ethcrypto.PubkeyToAddress(k.PublicKey) }

// EvmChain describes a remote chain placed into genesis.
type EvmChain struct {
	RefID   string
	ChainID uint64
}

type Options struct {
	// EpochShift moves the genesis time and every block time of the chain by this many seconds (default epoch: T0,
	// November 2023). State transitions must not depend on where the chain's clock stands relative to the machine's.
	EpochShift int64
	// UnpublishedChains: remote chains that are activated without any validator-set snapshot recorded as published
	// on them (the state after importing exported chain state: just-in-time validator-set updates fail there).
	UnpublishedChains map[string]bool
	Salt              string   // makes all keys of a case distinct from other cases
	Stakes            []int64  // one validator per entry, in ugrain (>= 1_000_000 each)
	ValSeeds          []string // optional explicit actor seeds for the validators (C12 address patterns)
	Users             []string // extra funded accounts
	UserBalance       int64
	InitialHeight     int64
	EvmChains         []EvmChain
	CommunityFee      string
	SecurityFee       string
	ExtraBalances     map[string]sdk.Coins // bech32 -> coins
	UserExtra         sdk.Coins            // additional coins every user account holds at genesis
	Logger            log.Logger
}

type Chain struct {
	App   *palomaapp.App
	DB    dbm.DB
	Home  string
	H     int64 // height of the NEXT block to be finalized
	Vals  []*Validator
	Users map[string]Actor
	Opts  Options

	seqBump  map[string]uint64
	oldHomes []string
	LastRes  *abci.ResponseFinalizeBlock
}

var initOnce bool

// Init sets the process-wide SDK configuration (bech32 prefixes, version). It must run before any address is
// rendered as a string (the SDK caches rendered addresses).
func Init() { globalInit() }

func globalInit() {
	if initOnce {
		return
	}
	initOnce = true
	palomaparams.SetAddressConfig()
	version.Version = "v5.1.6"
}

// ConsensusParams: unlimited block gas, large blocks.
func consensusParams() *cmtproto.ConsensusParams {
	p := *simtestutil.DefaultConsensusParams
	b := *p.Block
	b.MaxGas = -1
	b.MaxBytes = 20 << 20
	p.Block = &b
	return &p
}

func newApp(db dbm.DB, home string, logger log.Logger) *palomaapp.App {
	if logger == nil {
		logger = log.NewNopLogger()
	}
	return palomaapp.New(logger, db, nil, true, simtestutil.NewAppOptionsWithFlagHome(home), baseapp.SetChainID(ChainID))
}

// New boots a fresh chain. The caller must Close it before creating another one.
func New(o Options) (*Chain, error) {
	globalInit()
	if o.InitialHeight == 0 {
		o.InitialHeight = 1
	}
	if o.UserBalance == 0 {
		o.UserBalance = 1_000_000_000_000
	}
	if o.CommunityFee == "" {
		o.CommunityFee = "0.01"
	}
	if o.SecurityFee == "" {
		o.SecurityFee = "0.01"
	}
	home, err := os.MkdirTemp("", "verif-chain-")
	if err != nil {
		return nil, err
	}
	db := dbm.NewMemDB()
	app := newApp(db, home, o.Logger)
	c := &Chain{App: app, DB: db, Home: home, H: o.InitialHeight, Users: map[string]Actor{}, Opts: o, seqBump: map[string]uint64{}}
	cdc := app.AppCodec()
	gen := app.DefaultGenesis()

	var accs []authtypes.GenesisAccount
	var bals []banktypes.Balance
	var svals []stakingtypes.Validator
	var dels []stakingtypes.Delegation
	bonded := math.ZeroInt()
	for i, st := range o.Stakes {
		seed := fmt.Sprintf("%s/val-%d", o.Salt, i)
		if i < len(o.ValSeeds) && o.ValSeeds[i] != "" {
			seed = o.ValSeeds[i]
		}
		a := MkActor(seed)
		v := &Validator{Actor: a, Cons: ed25519.GenPrivKeyFromSecret([]byte(seed + "/cons")), Stake: math.NewInt(st), EthKeys: map[string]*ecdsa.PrivateKey{}, Index: i}
		for _, ec := range o.EvmChains {
			v.EthKeys[ec.RefID] = EthKeyFor(seed + "/eth/" + ec.RefID)
		}
		c.Vals = append(c.Vals, v)
		accs = append(accs, authtypes.NewBaseAccount(a.Addr, a.SK.PubKey(), 0, 0))
		bals = append(bals, banktypes.Balance{Address: a.Addr.String(), Coins: sdk.NewCoins(sdk.NewCoin(BondDenom, math.NewInt(o.UserBalance)))})
		pkAny, err := codectypes.NewAnyWithValue(v.Cons.PubKey())
		if err != nil {
			return nil, err
		}
		bonded = bonded.Add(v.Stake)
		svals = append(svals, stakingtypes.Validator{
			OperatorAddress: a.Val().String(), ConsensusPubkey: pkAny, Jailed: false, Status: stakingtypes.Bonded,
			Tokens: v.Stake, DelegatorShares: math.LegacyNewDecFromInt(v.Stake), Description: stakingtypes.Description{Moniker: fmt.Sprintf("v%d", i)},
			UnbondingHeight: 0, UnbondingTime: time.Unix(0, 0).UTC(),
			Commission:        stakingtypes.NewCommission(math.LegacyZeroDec(), math.LegacyOneDec(), math.LegacyOneDec()),
			MinSelfDelegation: math.OneInt(),
		})
		dels = append(dels, stakingtypes.NewDelegation(a.Addr.String(), a.Val().String(), math.LegacyNewDecFromInt(v.Stake)))
	}
	for _, n := range o.Users {
		a := MkActor(o.Salt + "/user-" + n)
		a.Name = n
		c.Users[n] = a
		accs = append(accs, authtypes.NewBaseAccount(a.Addr, a.SK.PubKey(), 0, 0))
		bals = append(bals, banktypes.Balance{Address: a.Addr.String(), Coins: sdk.NewCoins(sdk.NewCoin(BondDenom, math.NewInt(o.UserBalance))).Add(o.UserExtra...)})
	}
	for addr, coins := range o.ExtraBalances {
		bals = append(bals, banktypes.Balance{Address: addr, Coins: coins})
	}
	bals = append(bals, banktypes.Balance{Address: authtypes.NewModuleAddress(stakingtypes.BondedPoolName).String(), Coins: sdk.NewCoins(sdk.NewCoin(BondDenom, bonded))})

	gen[authtypes.ModuleName] = cdc.MustMarshalJSON(authtypes.NewGenesisState(authtypes.DefaultParams(), accs))
	var bankGen banktypes.GenesisState
	cdc.MustUnmarshalJSON(gen[banktypes.ModuleName], &bankGen)
	bankGen.Balances = banktypes.SanitizeGenesisBalances(bals)
	bankGen.Supply = nil
	gen[banktypes.ModuleName] = cdc.MustMarshalJSON(&bankGen)
	var stGen stakingtypes.GenesisState
	cdc.MustUnmarshalJSON(gen[stakingtypes.ModuleName], &stGen)
	stGen.Validators = svals
	stGen.Delegations = dels
	gen[stakingtypes.ModuleName] = cdc.MustMarshalJSON(&stGen)

	// every bonded validator has signing info on a real chain (created by the slashing hooks when it bonded)
	var slGen slashingtypes.GenesisState
	cdc.MustUnmarshalJSON(gen[slashingtypes.ModuleName], &slGen)
	for _, v := range c.Vals {
		cons := sdk.ConsAddress(v.Cons.PubKey().Address())
		slGen.SigningInfos = append(slGen.SigningInfos, slashingtypes.SigningInfo{Address: cons.String(),
			ValidatorSigningInfo: slashingtypes.NewValidatorSigningInfo(cons, 0, 0, time.Unix(0, 0).UTC(), false, 0)})
	}
	gen[slashingtypes.ModuleName] = cdc.MustMarshalJSON(&slGen)

	var evmGen evmtypes.GenesisState
	cdc.MustUnmarshalJSON(gen[evmtypes.ModuleName], &evmGen)
	for _, ec := range o.EvmChains {
		evmGen.Chains = append(evmGen.Chains, &evmtypes.GenesisChainInfo{ChainReferenceID: ec.RefID, ChainID: ec.ChainID, BlockHeight: 100, BlockHashAtHeight: "0x1234", MinOnChainBalance: "0", FeeManagerAddr: "0x00000000000000000000000000000000000000f1"})
	}
	evmGen.SmartContract = &evmtypes.GenesisSmartContract{AbiJson: CompassABI, BytecodeHex: "0x6001"}
	gen[evmtypes.ModuleName] = cdc.MustMarshalJSON(&evmGen)

	var trGen treasurytypes.GenesisState
	cdc.MustUnmarshalJSON(gen[treasurytypes.ModuleName], &trGen)
	trGen.TreasuryFees = treasurytypes.Fees{CommunityFundFee: o.CommunityFee, SecurityFee: o.SecurityFee}
	gen[treasurytypes.ModuleName] = cdc.MustMarshalJSON(&trGen)

	stateBytes, err := json.Marshal(gen)
	if err != nil {
		return nil, err
	}
	if _, err := app.InitChain(&abci.RequestInitChain{ChainId: ChainID, ConsensusParams: consensusParams(), AppStateBytes: stateBytes, Time: time.Unix(T0+o.EpochShift, 0), InitialHeight: o.InitialHeight}); err != nil {
		c.Close()
		return nil, fmt.Errorf("InitChain: %w", err)
	}
	return c, nil
}

// Close releases the wasm cache directory.
func (c *Chain) Close() {
	if c.App != nil {
		_ = c.App.Close()
	}
	if c.Home != "" {
		_ = os.RemoveAll(c.Home)
	}
	for _, h := range c.oldHomes {
		_ = os.RemoveAll(h)
	}
}

// Restart models a node restart: a new App over the same DB (re-binds the event bus).
func (c *Chain) Restart() {
	_ = c.App.Close()
	// the wasm VM of the old App keeps its cache directory locked for the life of the process, so the new App gets a
	// fresh one (the cache holds no consensus state)
	c.oldHomes = append(c.oldHomes, c.Home)
	home, err := os.MkdirTemp("", "verif-chain-")
	if err != nil {
		panic(err)
	}
	c.Home = home
	c.App = newApp(c.DB, c.Home, c.Opts.Logger)
}

func BlockTime(h int64) time.Time { return time.Unix(T0+h*BlockSecs, 0).UTC() }

// BlockTimeOf is BlockTime for this chain (Options.EpochShift moves all its block times by a constant).
func (c *Chain) BlockTimeOf(h int64) time.Time {
	return BlockTime(h).Add(time.Duration(c.Opts.EpochShift) * time.Second)
}

// Ctx is an uncached context on the committed state, positioned at the next block (for fixtures and reads).
func (c *Chain) Ctx() sdk.Context {
	return c.App.NewUncachedContext(false, cmtproto.Header{ChainID: ChainID, Height: c.H, Time: c.BlockTimeOf(c.H)})
}

// ReadCtx: read-only view of committed state at the last committed height.
func (c *Chain) ReadCtx() sdk.Context {
	ctx, _ := c.Ctx().CacheContext()
	return ctx
}

// Block finalizes and commits one block. An error or panic escaping FinalizeBlock is returned (C09 oracle).
func (c *Chain) Block(txs ...[]byte) (res *abci.ResponseFinalizeBlock, err error) {
	defer func() {
		if r := recover(); r != nil {
			err = fmt.Errorf("PANIC in FinalizeBlock h=%d: %v", c.H, r)
			if os.Getenv("VERIF_PANIC_STACK") != "" {
				err = fmt.Errorf("%w\n%s", err, debug.Stack())
			}
		}
	}()
	res, err = c.App.FinalizeBlock(&abci.RequestFinalizeBlock{Height: c.H, Time: c.BlockTimeOf(c.H), Txs: txs})
	if err != nil {
		return nil, fmt.Errorf("FinalizeBlock h=%d: %w", c.H, err)
	}
	if _, err := c.App.Commit(); err != nil {
		return nil, fmt.Errorf("Commit h=%d: %w", c.H, err)
	}
	c.H++
	c.seqBump = map[string]uint64{}
	c.LastRes = res
	return res, nil
}

// MustBlock panics on block failure (setup phases).
func (c *Chain) MustBlock(txs ...[]byte) *abci.ResponseFinalizeBlock {
	res, err := c.Block(txs...)
	if err != nil {
		panic(err)
	}
	return res
}

// Advance runs n empty blocks.
func (c *Chain) Advance(n int) error {
	for i := 0; i < n; i++ {
		if _, err := c.Block(); err != nil {
			return err
		}
	}
	return nil
}

// AdvanceTo runs empty blocks until the next block to be finalized is h (i.e. the last finalized is h-1).
func (c *Chain) AdvanceTo(h int64) error {
	for c.H < h {
		if _, err := c.Block(); err != nil {
			return err
		}
	}
	return nil
}

// Sign builds a tx carrying msgs signed by the given keys (in the order of the messages' required signers).
// Sequence numbers are taken from committed state plus the txs already signed for the current block.
func (c *Chain) Sign(signers []Actor, msgs ...sdk.Msg) ([]byte, error) {
	ctx := c.ReadCtx()
	txc := c.App.TxConfig()
	var accNums, seqs []uint64
	var privs []cryptotypes.PrivKey
	for _, a := range signers {
		acc := c.App.AccountKeeper.GetAccount(ctx, a.Addr)
		if acc == nil {
			return nil, fmt.Errorf("signer %s has no account", a.Addr)
		}
		accNums = append(accNums, acc.GetAccountNumber())
		seqs = append(seqs, acc.GetSequence()+c.seqBump[a.Addr.String()])
		privs = append(privs, a.SK)
	}
	tx, err := simtestutil.GenSignedMockTx(rand.New(rand.NewSource(1)), txc, msgs, sdk.NewCoins(), 100_000_000, ChainID, accNums, seqs, privs...)
	if err != nil {
		return nil, err
	}
	bz, err := txc.TxEncoder()(tx)
	if err != nil {
		return nil, err
	}
	for _, a := range signers {
		c.seqBump[a.Addr.String()]++
	}
	return bz, nil
}

// MustSign is Sign for a single signer, panicking on construction errors.
func (c *Chain) MustSign(a Actor, msgs ...sdk.Msg) []byte {
	bz, err := c.Sign([]Actor{a}, msgs...)
	if err != nil {
		panic(err)
	}
	return bz
}

// UnbumpSeq must be called for a signer whose tx failed in ante (sequence not consumed) when more txs follow in the same block.
func (c *Chain) ResetSeqBumps() { c.seqBump = map[string]uint64{} }

// MD builds message metadata with creator == signer == a.
func MD(a Actor) vtypes.MsgMetadata {
	return vtypes.MsgMetadata{Creator: a.Addr.String(), Signers: []string{a.Addr.String()}}
}

// MDAs builds metadata claiming creator while signed by signer.
func MDAs(creator sdk.AccAddress, signers ...Actor) vtypes.MsgMetadata {
	m := vtypes.MsgMetadata{Creator: creator.String()}
	for _, s := range signers {
		m.Signers = append(m.Signers, s.Addr.String())
	}
	return m
}

func GovAddr() sdk.AccAddress { return authtypes.NewModuleAddress(govtypes.ModuleName) }

// GovMD is the metadata of a message executed by a passed governance proposal.
func GovMD() vtypes.MsgMetadata {
	g := GovAddr().String()
	return vtypes.MsgMetadata{Creator: g, Signers: []string{g}}
}

// Gov executes msg the way x/gov does for a passed proposal: router handler inside a cache context that is
// written only on success. Applied between blocks on the committed state.
func (c *Chain) Gov(msg sdk.Msg) (err error) {
	defer func() {
		if r := recover(); r != nil {
			err = fmt.Errorf("panic in governance handler: %v", r)
		}
	}()
	h := c.App.MsgServiceRouter().Handler(msg)
	if h == nil {
		return fmt.Errorf("no handler for %T", msg)
	}
	cctx, write := c.Ctx().CacheContext()
	if _, err := h(cctx, msg); err != nil {
		return err
	}
	write()
	return nil
}

// TxOK reports whether tx i of the last block succeeded.
func TxOK(res *abci.ResponseFinalizeBlock, i int) bool {
	return res != nil && i < len(res.TxResults) && res.TxResults[i].Code == 0
}

// ---------------------------------------------------------------------------------------------------

// RegisterValidatorsTx returns, per validator, one tx that registers its external chain accounts, sends a
// keep-alive and sets relayer fees for every remote chain.
func (c *Chain) RegisterValidatorTx(v *Validator, multiplicator string, pigeonVersion string) []byte {
	var infos []*vtypes.ExternalChainInfo
	var fees []treasurytypes.RelayerFeeSetting_FeeSetting
	for _, ec := range c.Opts.EvmChains {
		ea := EthAddr(v.EthKeys[ec.RefID])
		infos = append(infos, &vtypes.ExternalChainInfo{ChainType: "evm", ChainReferenceID: ec.RefID, Address: ea.Hex(), Pubkey: ea.Bytes()})
		fees = append(fees, treasurytypes.RelayerFeeSetting_FeeSetting{ChainReferenceId: ec.RefID, Multiplicator: math.LegacyMustNewDecFromStr(multiplicator)})
	}
	msgs := []sdk.Msg{&vtypes.MsgKeepAlive{Metadata: MD(v.Actor), PigeonVersion: pigeonVersion}}
	if len(infos) > 0 {
		msgs = append(msgs,
			&vtypes.MsgAddExternalChainInfoForValidator{Metadata: MD(v.Actor), ChainInfos: infos},
			&treasurytypes.MsgUpsertRelayerFee{Metadata: MD(v.Actor), FeeSetting: &treasurytypes.RelayerFeeSetting{ValAddress: v.Val().String(), Fees: fees}},
		)
	}
	return c.MustSign(v.Actor, msgs...)
}

// Ready brings the chain to "bridging ready": block 1 (snapshot attempt), validators register, a snapshot is
// built, every remote chain's compass deployment is marked active through the fixture.
func (c *Chain) Ready() error {
	if _, err := c.Block(); err != nil {
		return err
	}
	var txs [][]byte
	for _, v := range c.Vals {
		txs = append(txs, c.RegisterValidatorTx(v, "1.1", "v2.0.0"))
	}
	res, err := c.Block(txs...)
	if err != nil {
		return err
	}
	for i, r := range res.TxResults {
		if r.Code != 0 {
			return fmt.Errorf("setup tx %d: %s", i, r.Log)
		}
	}
	ctx := c.Ctx()
	if _, err := c.App.ValsetKeeper.TriggerSnapshotBuild(ctx); err != nil {
		return fmt.Errorf("snapshot: %w", err)
	}
	return c.ActivateAll("compass-1")
}

// ActivateAll marks the latest compass contract as deployed and active on every remote chain (fixture).
func (c *Chain) ActivateAll(uniqueID string) error {
	ctx := c.Ctx()
	snap, err := c.App.ValsetKeeper.GetCurrentSnapshot(ctx)
	if err != nil {
		return err
	}
	sc, err := c.App.EvmKeeper.GetLastCompassContract(ctx)
	if err != nil {
		return err
	}
	for i, ec := range c.Opts.EvmChains {
		if !c.Opts.UnpublishedChains[ec.RefID] {
			if err := c.App.ValsetKeeper.SetSnapshotOnChain(ctx, snap.Id, ec.RefID); err != nil {
				return err
			}
		}
		addr := fmt.Sprintf("0x00000000000000000000000000000000000000c%d", i+1)
		if err := c.App.EvmKeeper.ActivateChainReferenceID(ctx, ec.RefID, sc, addr, []byte(uniqueID)); err != nil {
			return err
		}
	}
	_, err = c.Block()
	return err
}

var _ = cmttypes.ABCIPubKeyTypeEd25519
