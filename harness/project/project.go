// Package project computes state projections used by the non-interference and determinism oracles.
package project

import (
	"bytes"
	"crypto/sha256"
	"encoding/hex"
	"fmt"
	"sort"

	sdk "github.com/cosmos/cosmos-sdk/types"

	"verif/harness/chain"
)

// Stores that can hold state attributed to a principal.
var PrincipalStores = []string{"palomaconsensus", "evm", "metrix", "paloma-store", "scheduler", "skyway", "tokenfactory", "treasury", "valset", "bank", "feegrant", "authz", "acc"}

// PalomaStores are the stores of the Paloma modules plus the params store.
var PalomaStores = []string{"palomaconsensus", "evm", "metrix", "paloma-store", "scheduler", "skyway", "tokenfactory", "treasury", "valset", "params"}

// Idents returns the byte patterns under which an account can be mentioned in keys or values:
// raw address bytes, bech32 account address, bech32 validator-operator address.
func Idents(addr sdk.AccAddress) [][]byte {
	return [][]byte{[]byte(addr), []byte(addr.String()), []byte(sdk.ValAddress(addr).String())}
}

// Mentions returns storeName/hexkey -> sha256(value) for every entry of the given stores whose key or value
// contains one of the patterns.
func Mentions(c *chain.Chain, stores []string, patterns [][]byte) map[string]string {
	out := map[string]string{}
	ctx := c.ReadCtx()
	for _, name := range stores {
		sk := c.App.GetKey(name)
		if sk == nil {
			continue
		}
		st := ctx.KVStore(sk)
		it := st.Iterator(nil, nil)
		for ; it.Valid(); it.Next() {
			k, v := it.Key(), it.Value()
			hit := false
			for _, p := range patterns {
				if bytes.Contains(k, p) || bytes.Contains(v, p) {
					hit = true
					break
				}
			}
			if hit {
				h := sha256.Sum256(v)
				out[name+"/"+hex.EncodeToString(k)] = hex.EncodeToString(h[:8])
			}
		}
		it.Close()
	}
	return out
}

// All returns storeName/hexkey -> hash for whole stores.
func All(c *chain.Chain, stores []string) map[string]string {
	out := map[string]string{}
	ctx := c.ReadCtx()
	for _, name := range stores {
		sk := c.App.GetKey(name)
		if sk == nil {
			continue
		}
		it := ctx.KVStore(sk).Iterator(nil, nil)
		for ; it.Valid(); it.Next() {
			h := sha256.Sum256(it.Value())
			out[name+"/"+hex.EncodeToString(it.Key())] = hex.EncodeToString(h[:8])
		}
		it.Close()
	}
	return out
}

// Diff lists keys added / changed / removed between two projections, sorted.
func Diff(before, after map[string]string) []string {
	var d []string
	for k, v := range before {
		if w, ok := after[k]; !ok {
			d = append(d, "removed "+k)
		} else if w != v {
			d = append(d, "changed "+k)
		}
	}
	for k := range after {
		if _, ok := before[k]; !ok {
			d = append(d, "added "+k)
		}
	}
	sort.Strings(d)
	return d
}

// DiffKeys returns just the keys that differ.
func DiffKeys(before, after map[string]string) map[string]bool {
	out := map[string]bool{}
	for k, v := range before {
		if w, ok := after[k]; !ok || w != v {
			out[k] = true
		}
	}
	for k := range after {
		if _, ok := before[k]; !ok {
			out[k] = true
		}
	}
	return out
}

// Short renders a diff for error messages (ascii keys are shown decoded).
func Short(d []string, max int) string {
	s := ""
	for i, e := range d {
		if i >= max {
			s += fmt.Sprintf(" ... (+%d more)", len(d)-max)
			break
		}
		s += "\n    " + pretty(e)
	}
	return s
}

func pretty(e string) string {
	// "<op> <store>/<hexkey>"
	for i := len(e) - 1; i >= 0; i-- {
		if e[i] == '/' {
			raw, err := hex.DecodeString(e[i+1:])
			if err != nil {
				return e
			}
			printable := make([]byte, len(raw))
			for j, b := range raw {
				if b >= 32 && b < 127 {
					printable[j] = b
				} else {
					printable[j] = '.'
				}
			}
			return e[:i+1] + string(printable) + "  [" + e[i+1:] + "]"
		}
	}
	return e
}
