// Package evid collects, per test process, what the generated cases of one property covered and
// writes it as JSON for the driver (./check) to merge into evidence/<id>.json.
package evid

import (
	"encoding/json"
	"flag"
	"fmt"
	"hash/fnv"
	"os"
	"sort"
	"strconv"
	"sync"
	"testing"

	"pgregory.net/rapid"
)

type testStats struct {
	Evaluations int64            `json:"evaluations"`
	Nontrivial  int64            `json:"nontrivial"`
	Labels      map[string]int64 `json:"labels"`
	Samples     []any            `json:"samples"`
	Requested   int              `json:"requested_checks"`
	Seed        uint64           `json:"rapid_seed"`
	hashes      map[uint64]struct{}
}

type out struct {
	Tests  map[string]*testStats `json:"tests"`
	Hashes map[string][]string   `json:"hashes"`
	Notes  map[string][]string   `json:"notes"`
}

var (
	mu    sync.Mutex
	tests = map[string]*testStats{}
	notes = map[string][]string{}
)

const maxSamples = 4

func get(name string) *testStats {
	s := tests[name]
	if s == nil {
		s = &testStats{Labels: map[string]int64{}, hashes: map[uint64]struct{}{}}
		tests[name] = s
	}
	return s
}

// Hash64 is the FNV-1a hash used to identify abstract traces.
func Hash64(s string) uint64 {
	h := fnv.New64a()
	_, _ = h.Write([]byte(s))
	return h.Sum64()
}

// Case records one completed generated case. trace is the abstract trace (what makes two cases
// "the same"); nontrivial says whether the property's stated rule was met; sample is only
// materialised for the first few non-trivial cases.
func Case(test string, trace string, nontrivial bool, labels []string, sample func() any) {
	mu.Lock()
	defer mu.Unlock()
	s := get(test)
	s.Evaluations++
	for _, l := range labels {
		s.Labels[l]++
	}
	if nontrivial {
		s.Nontrivial++
		h := Hash64(trace)
		if _, ok := s.hashes[h]; !ok {
			s.hashes[h] = struct{}{}
			if len(s.Samples) < maxSamples && sample != nil {
				s.Samples = append(s.Samples, sample())
			}
		}
	}
}

// Note attaches free text to a test's evidence (e.g. uncovered message types).
func Note(test, text string) {
	mu.Lock()
	defer mu.Unlock()
	for _, n := range notes[test] {
		if n == text {
			return
		}
	}
	notes[test] = append(notes[test], text)
}

func envInt(name string, def int64) int64 {
	if v, err := strconv.ParseInt(os.Getenv(name), 10, 64); err == nil {
		return v
	}
	return def
}

// Tier returns "quick" or "thorough".
func Tier() string {
	if os.Getenv("VERIF_TIER") == "thorough" {
		return "thorough"
	}
	return "quick"
}

// Seed derives the rapid seed of a test from VERIF_SEED, the shard and the test name; never 0
// (rapid treats 0 as "random").
func Seed(test string) uint64 {
	base := envInt("VERIF_SEED", 1)
	shard := envInt("VERIF_SHARD", 0)
	h := Hash64(fmt.Sprintf("%d/%d/%s", base, shard, test))
	if h == 0 {
		h = 0x9e3779b97f4a7c15
	}
	return h
}

// Check runs prop under rapid with a case count chosen by tier (quick / thorough-per-shard) and a
// seed that is a pure function of VERIF_SEED, VERIF_SHARD and the test name.
func Check(t *testing.T, quick, thorough int, prop func(*rapid.T)) {
	t.Helper()
	n := quick
	if Tier() == "thorough" {
		n = thorough
	}
	if v := envInt("VERIF_CHECKS", 0); v > 0 {
		n = int(v)
	}
	if sc := envInt("VERIF_SCALE_PCT", 100); sc != 100 {
		n = int(int64(n) * sc / 100)
		if n < 1 {
			n = 1
		}
	}
	seed := Seed(t.Name())
	if os.Getenv("VERIF_REPLAY") == "" {
		_ = flag.Set("rapid.checks", strconv.Itoa(n))
		_ = flag.Set("rapid.seed", strconv.FormatUint(seed, 10))
	}
	mu.Lock()
	s := get(t.Name())
	s.Requested = n
	s.Seed = seed
	mu.Unlock()
	rapid.Check(t, prop)
}

// Flush writes the collected statistics to $VERIF_EVID_OUT (if set).
func Flush() {
	path := os.Getenv("VERIF_EVID_OUT")
	if path == "" {
		return
	}
	mu.Lock()
	defer mu.Unlock()
	o := out{Tests: tests, Hashes: map[string][]string{}, Notes: notes}
	for name, s := range tests {
		hs := make([]string, 0, len(s.hashes))
		for h := range s.hashes {
			hs = append(hs, strconv.FormatUint(h, 16))
		}
		sort.Strings(hs)
		o.Hashes[name] = hs
	}
	bz, err := json.Marshal(o)
	if err != nil {
		fmt.Fprintln(os.Stderr, "evid: marshal:", err)
		return
	}
	if err := os.WriteFile(path, bz, 0o644); err != nil {
		fmt.Fprintln(os.Stderr, "evid: write:", err)
	}
}

// Main is the TestMain body shared by the property packages.
func Main(m *testing.M) {
	code := m.Run()
	Flush()
	os.Exit(code)
}
