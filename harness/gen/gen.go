// Package gen holds generators shared by several properties (stake distributions, hostile numeric pools).
package gen

import (
	"math/big"

	"pgregory.net/rapid"
)

// Shares draws n positive share counts from one of the distribution families of DESIGN §3.
// All values are < 2^62 and their sum is < 2^63 (the limit the code itself imposes through Int64 conversions).
func Shares(t *rapid.T, n int, label string) []*big.Int {
	kind := rapid.SampledFrom([]string{"tiny", "equal", "whale", "geometric", "random", "huge", "boundary23"}).Draw(t, label+".kind")
	out := make([]*big.Int, n)
	switch kind {
	case "tiny":
		for i := range out {
			out[i] = big.NewInt(int64(rapid.IntRange(1, 7).Draw(t, label+".s")))
		}
	case "equal":
		v := rapid.Int64Range(1, 1<<40).Draw(t, label+".v")
		for i := range out {
			out[i] = big.NewInt(v)
		}
	case "whale":
		small := rapid.Int64Range(1, 1000).Draw(t, label+".small")
		mult := rapid.SampledFrom([]int64{1, 2, 3, 4, 10}).Draw(t, label+".mult")
		for i := range out {
			out[i] = big.NewInt(small)
		}
		out[rapid.IntRange(0, n-1).Draw(t, label+".who")] = big.NewInt(small * int64(n) * mult / 2)
		if out[0].Sign() == 0 {
			out[0] = big.NewInt(1)
		}
	case "geometric":
		v := rapid.Int64Range(1, 1<<20).Draw(t, label+".v")
		for i := range out {
			out[i] = big.NewInt(v)
			if v < 1<<50 {
				v *= 2
			}
		}
	case "random":
		for i := range out {
			out[i] = big.NewInt(rapid.Int64Range(1, 1<<50).Draw(t, label+".s"))
		}
	case "huge":
		// sum < 2^63: each < 2^63/n
		lim := (int64(1)<<62)/int64(n) - 1
		for i := range out {
			out[i] = big.NewInt(rapid.Int64Range(lim/2, lim).Draw(t, label+".s"))
		}
	case "boundary23":
		// first k validators together hold S, the rest R, with S = 2R + d, d in [-2,2]: 3S >= 2(S+R) <=> S >= 2R.
		if n < 2 {
			out[0] = big.NewInt(rapid.Int64Range(1, 1<<40).Draw(t, label+".s"))
			break
		}
		k := rapid.IntRange(1, n-1).Draw(t, label+".k")
		rest := n - k
		R := rapid.Int64Range(int64(rest)+2, 1<<59).Draw(t, label+".R")
		d := rapid.Int64Range(-2, 2).Draw(t, label+".d")
		S := 2*R + d
		if S < int64(k) {
			S = int64(k)
		}
		split(t, out[:k], S, label+".splitS")
		split(t, out[k:], R, label+".splitR")
	}
	return out
}

// split fills dst with positive integers summing to total (total >= len(dst)).
func split(t *rapid.T, dst []*big.Int, total int64, label string) {
	remaining := total
	for i := range dst {
		left := int64(len(dst) - i - 1)
		if left == 0 {
			dst[i] = big.NewInt(remaining)
			break
		}
		max := remaining - left
		v := rapid.Int64Range(1, max).Draw(t, label)
		dst[i] = big.NewInt(v)
		remaining -= v
	}
}

// Sum of big ints.
func Sum(xs []*big.Int) *big.Int {
	s := new(big.Int)
	for _, x := range xs {
		s.Add(s, x)
	}
	return s
}

// Uint64Hostile draws from the whole uint64 range with the boundary values over-represented.
func Uint64Hostile() *rapid.Generator[uint64] {
	return rapid.OneOf(
		rapid.SampledFrom([]uint64{1, 2, 3, 21000, 300000, 1 << 32, 1<<63 - 1, 1 << 63, 1<<63 + 1, 1<<63 + 2, 1<<64 - 2, 1<<64 - 1}),
		rapid.Uint64Range(1, 1000),
		rapid.Uint64Range(1<<63-1000, 1<<63+1000),
		rapid.Uint64Range(1<<64-1000, 1<<64-1),
		rapid.Uint64Range(1, 1<<64-1),
	)
}
