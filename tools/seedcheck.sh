#!/bin/bash
# usage: tools/seedcheck.sh <worktree> <outdir> <demo go test args...>
# 1. demonstration fails with the patch, passes without; 2. build + touched-package tests pass with the patch
set -u
wt="$1"; out="$2"; shift 2
export GOFLAGS=-mod=mod GOPROXY=off GOSUMDB=off
cd "$wt" || exit 3
git checkout -q -- . 2>/dev/null
git apply "$out/patch.diff" || { echo "PATCH DOES NOT APPLY"; exit 3; }
echo "== demo WITH patch (expect FAIL)"; go test "$@" -count=1 > /tmp/seedcheck.$$.with 2>&1; rcw=$?; tail -3 /tmp/seedcheck.$$.with
git apply -R "$out/patch.diff"
echo "== demo WITHOUT patch (expect ok)"; go test "$@" -count=1 > /tmp/seedcheck.$$.without 2>&1; rco=$?; tail -3 /tmp/seedcheck.$$.without
git apply "$out/patch.diff"
echo "== build with patch"; go build ./... ; rcb=$?
pkgs=$(git diff --name-only | grep '\.go$' | xargs -n1 dirname | sort -u | sed 's|^|./|')
# move demo files aside for the existing-test run
demos=$(git status --porcelain | grep '^??' | awk '{print $2}' | grep '_test.go$')
for d in $demos; do mv "$d" "$d.aside"; done
echo "== existing tests of touched packages: $pkgs"; go test $pkgs -count=1 2>&1 | tail -5; rct=${PIPESTATUS[0]}
for d in $demos; do mv "$d.aside" "$d"; done
echo "RESULT demo_with_patch_rc=$rcw demo_without_rc=$rco build_rc=$rcb existing_tests_rc=$rct"
rm -f /tmp/seedcheck.$$.*
