#!/bin/bash
# usage: tools/runall.sh <seed> [tier] [parallel]  — run every claimed check at a seed, evidence to a scratch dir.
seed="${1:-1}"; tier="${2:-quick}"; par="${3:-4}"
cd /verif
out=/tmp/runall-$seed-$tier; mkdir -p $out
ids=$(python3 -c "import json;print(' '.join(c['property_id'] for c in json.load(open('MANIFEST.json'))['checks']))")
echo $ids | tr ' ' '\n' | xargs -P $par -I{} bash -c "VERIF_SEED=$seed VERIF_EVIDENCE_DIR=$out/evidence VERIF_REPLAY_DIR=$out/replays ./check {} --tier $tier > $out/{}.out 2> $out/{}.err; echo {} rc=\$? >> $out/summary.txt"
sort $out/summary.txt
