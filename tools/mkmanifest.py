#!/usr/bin/env python3
"""Regenerate MANIFEST.json from props/props.json (claimed checks) and properties.jsonl (ids)."""
import json, subprocess
ids=[json.loads(l)['id'] for l in open('/verif/properties.jsonl')]
props=json.load(open('/verif/props/props.json'))
na_reasons=json.load(open('/verif/props/not_applicable.json')) if __import__('os').path.exists('/verif/props/not_applicable.json') else {}
checks=[]
for i in ids:
    if i not in props: continue
    c=props[i]
    checks.append({"property_id":i,"quick_cmd":f"./check {i} --tier quick","thorough_cmd":f"./check {i} --tier thorough",
      "evidence_file":f"/verif/evidence/{i}.json","replay_cmd_template":f"./check {i} --replay {{path}}","engine":c.get("engine","rapid-props"),
      "level_claimed":{"category":c.get("level","exploration"),"text":c["level_text"],"design_ref":f"DESIGN.md §5 {i}"},
      "level_note":c["level_note"],
      "technique":c.get("technique","property-based testing (pgregory.net/rapid v1.3.0): generated inputs / stateful operation sequences against an explicit oracle; shrunk fail file = replay")})
hooks=[l.split()[0] for l in subprocess.run(['git','-C','/repo','log','--format=%h %s','--grep=^verif hook'],capture_output=True,text=True).stdout.splitlines()]
m={"version":1,"setup_cmd":"./check --build-only",
 "hooks":{"guard":"verif","enable":"go test -tags verif (module /verif replaces github.com/palomachain/paloma/v2 with /repo)","baseline_off_cmd":"cd /repo && GOFLAGS=-mod=mod go test -vet=off -count=1 -timeout 25m ./...","source_commits":hooks,"add_only":True},
 "engines":[{"name":"rapid-props","path":"/verif/props","serves_properties":[c['property_id'] for c in checks],"kind_free_text":"Go test binary built from /verif/props + /verif/harness against /repo's working tree (replace directive); pgregory.net/rapid v1.3.0 properties and state machines over E-pure (direct calls), E-chain (full application, real transactions and blocks) and E-bridge (fault-injecting collaborators); driver ./check shards, classifies exit codes, promotes shrunk fail files to replays/, merges evidence"}],
 "checks":checks,
 "notes":"See DESIGN.md. known_findings.json lists repaired (fixed:) and recorded findings. mutants/ holds the sensitivity patches, seeded/ the independently written breaking changes.",
 "not_applicable":[{"property_id":i,"reason":na_reasons.get(i,"check not built yet in this round (planned with the same technique, see DESIGN.md §5); not claimed until it runs")} for i in ids if i not in props]}
json.dump(m,open('/verif/MANIFEST.json','w'),indent=1)
print("claimed:",[c['property_id'] for c in checks])
