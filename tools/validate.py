#!/opt/veriftools/pyvenv/bin/python
"""Validate MANIFEST.json and every evidence file against the given schemas."""
import json, sys, glob, jsonschema
ok = True
m = json.load(open('/verif/MANIFEST.json'))
try:
    jsonschema.validate(m, json.load(open('/root/.vp/MANIFEST.schema.json')))
    print('MANIFEST ok: %d checks, %d not_applicable' % (len(m['checks']), len(m.get('not_applicable', []))))
except jsonschema.ValidationError as e:
    ok = False; print('MANIFEST INVALID:', e.message)
es = json.load(open('/root/.vp/EVIDENCE.schema.json'))
for c in m['checks']:
    p = c['evidence_file']
    try:
        ev = json.load(open(p))
        jsonschema.validate(ev, es)
        assert ev['level'] == c['level_claimed']['category'], 'level mismatch'
        print(' evidence ok', p, ev['tier'], ev['coverage']['evaluations'], ev['coverage']['distinct_nontrivial'])
    except Exception as e:
        ok = False; print(' evidence BAD', p, str(e)[:200])
ids = [json.loads(l)['id'] for l in open('/verif/properties.jsonl')]
claimed = {c['property_id'] for c in m['checks']}; na = {x['property_id'] for x in m.get('not_applicable', [])}
for i in ids:
    if i not in claimed and i not in na:
        ok = False; print(' property neither claimed nor not_applicable:', i)
sys.exit(0 if ok else 1)
