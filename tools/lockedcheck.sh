#!/bin/bash
# usage: tools/lockedcheck.sh <ID> [tier]  — run a check on the unchanged tree while tools/mutant.sh / seedsweep.sh may
# be running: holds the mutant lock (so /repo is clean) until the check has built its test binary, then releases it.
set -u
id="$1"; tier="${2:-quick}"
cd /verif
exec 9>/tmp/verif-mutant.lock; flock 9
if [ -n "$(git -C /repo status --porcelain -- . ':!third_party')" ]; then echo "/repo not clean"; exit 3; fi
tag=$$
./check "$id" --tier "$tier" > /tmp/locked.$tag.out 2> /tmp/locked.$tag.err &
pid=$!
for i in $(seq 1 600); do
  if grep -q "^\[build\]" /tmp/locked.$tag.err 2>/dev/null || ! kill -0 $pid 2>/dev/null; then break; fi
  sleep 0.5
done
flock -u 9
wait $pid; rc=$?
grep -E "VIOLATION|KNOWN-FINDING" /tmp/locked.$tag.out | head -5; tail -4 /tmp/locked.$tag.err
rm -f /tmp/locked.$tag.out /tmp/locked.$tag.err
echo "locked $id ($tier): rc=$rc"
exit $rc
