#!/usr/bin/env python3
"""usage: tools/recordseed.py <outdir> <worktree-commit> <property> <name> <status> <needs> <check_result>
Copies a confirmed sub-agent change (patch.diff, demonstration files, README.md, demo_path.txt) to seeded/<name>/ and
writes meta.json."""
import json, os, shutil, sys

out, commit, prop, name, status, needs, result = sys.argv[1:8]
dst = os.path.join(os.path.dirname(os.path.dirname(os.path.abspath(__file__))), "seeded", name)
os.makedirs(dst, exist_ok=True)
shutil.copy(os.path.join(out, "patch.diff"), os.path.join(dst, "patch.diff"))
for f in ("README.md", "demo_path.txt"):
    if os.path.exists(os.path.join(out, f)):
        shutil.copy(os.path.join(out, f), os.path.join(dst, f))
demos = []
for root, _, files in os.walk(out):
    for f in files:
        if f.endswith("_test.go"):
            rel = os.path.relpath(os.path.join(root, f), out)
            flat = rel.replace("/", "__") + ".txt"  # .txt: never compiled by anything in /verif
            shutil.copy(os.path.join(root, f), os.path.join(dst, flat))
            demos.append({"file": flat, "original_name": rel})
meta = {
    "property": prop,
    "origin": f"fresh sub-agent given only the property text (with the clause to aim at) and a scratch worktree of /repo at {commit}",
    "patch": "patch.diff",
    "demonstration": {"files": demos, "placement_and_command": "see demo_path.txt"},
    "needs_to_manifest": needs,
    "confirmed_by": "tools/seedcheck.sh <worktree> <outdir> <packages> -run <demo>: demonstration rc=1 with the patch, rc=0 without; go build ./... ok; tests of the touched packages pass with the patch",
    "check_result": result,
    "status": status,
    "how_to_run": f"tools/mutant.sh seeded/{name}/patch.diff {prop}   (git -C /repo apply; ./check {prop}; git -C /repo checkout -- .)",
}
json.dump(meta, open(os.path.join(dst, "meta.json"), "w"), indent=1)
print("recorded", dst, len(demos), "demo file(s)")
