#!/bin/bash
# usage: tools/seedsweep.sh [tier] [lanes]  — run every seeded change (seeded/*/patch.diff) and every hand-written
# mutant (mutants/<ID>/*.diff) against the check of its property; one line per change. Expected: rc=1 (caught) for all
# but the changes whose meta.json says they are equivalent on the repaired tree (and mutants/C19/no_count_dec.diff).
tier="${1:-quick}"; lanes="${2:-3}"
cd /verif
{
  for d in seeded/*/; do
    p=$(python3 -c "import json;m=json.load(open('$d/meta.json'));print(m.get('check_with') or m['property'])")
    echo "$d/patch.diff $p"
  done
  for f in mutants/*/*.diff; do
    echo "$f $(basename $(dirname $f))"
  done
} | xargs -P "$lanes" -L 1 bash -c 'tools/mutant.sh "$0" "$1" '"$tier"' 2>&1 | tail -1'
