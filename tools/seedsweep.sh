#!/bin/bash
# usage: tools/seedsweep.sh [tier]  — run every seeded change against the check of its property; prints one line per change.
# Expected: rc=1 (caught) for all but the changes whose meta.json says they are equivalent on the repaired tree.
tier="${1:-quick}"
cd /verif
for d in seeded/*/; do
  p=$(python3 -c "import json;print(json.load(open('$d/meta.json'))['property'])")
  tools/mutant.sh "$d/patch.diff" "$p" "$tier" 2>&1 | tail -1
done
