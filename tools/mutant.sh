#!/bin/bash
# usage: tools/mutant.sh <patch-file> <ID> [tier]
# Applies a patch to /repo, starts the check, restores /repo as soon as the check has built its test binary
# (the binary is what runs afterwards), waits for the verdict. Evidence / replays go to scratch directories.
set -u
patch="$(readlink -f "$1")"; id="$2"; tier="${3:-quick}"
cd /verif
exec 9>/tmp/verif-mutant.lock; flock 9
if [ -n "$(git -C /repo status --porcelain -- . ':!third_party')" ]; then echo "/repo not clean"; exit 3; fi
git -C /repo apply "$patch" || { echo "patch does not apply"; exit 3; }
tag=$$
VERIF_EVIDENCE_DIR=/tmp/mutant-evidence VERIF_REPLAY_DIR=/tmp/mutant-replays ./check "$id" --tier "$tier" > /tmp/mutant.$tag.out 2> /tmp/mutant.$tag.err &
pid=$!
for i in $(seq 1 600); do
  if grep -q "^\[build\]" /tmp/mutant.$tag.err 2>/dev/null || ! kill -0 $pid 2>/dev/null; then break; fi
  sleep 0.5
done
git -C /repo checkout -- .
flock -u 9
wait $pid; rc=$?
grep -E "VIOLATION|KNOWN-FINDING" /tmp/mutant.$tag.out | head -3; tail -2 /tmp/mutant.$tag.err
rm -f /tmp/mutant.$tag.out /tmp/mutant.$tag.err
echo "mutant $(basename $(dirname $patch))/$(basename $patch) on $id ($tier): rc=$rc"
exit $rc
