#!/bin/bash
# usage: tools/mutant.sh <patch-file> <ID> [tier]   — apply a patch to /repo, run the check, always restore /repo.
set -u
patch="$(readlink -f "$1")"; id="$2"; tier="${3:-quick}"
cd /verif
if [ -n "$(git -C /repo status --porcelain -- . ':!third_party')" ]; then echo "/repo not clean"; exit 3; fi
git -C /repo apply "$patch" || { echo "patch does not apply"; exit 3; }
VERIF_EVIDENCE_DIR=/tmp/mutant-evidence VERIF_REPLAY_DIR=/tmp/mutant-replays ./check "$id" --tier "$tier" > /tmp/mutant.$$.out 2> /tmp/mutant.$$.err; rc=$?
git -C /repo checkout -- . 
grep -E "VIOLATION|KNOWN-FINDING" /tmp/mutant.$$.out; tail -3 /tmp/mutant.$$.err
rm -f /tmp/mutant.$$.out /tmp/mutant.$$.err
echo "mutant $(basename $patch) on $id: rc=$rc"
exit $rc
